//! C08 — Untrusted input never crashes a BBS verifier, signer or holder.
//! Built with overflow checks and debug assertions (cargo profile `checked`). Oracle per call:
//! outcome is Ok or Err (never a panic), generator derivations <= 64 + 4*units (logical-step
//! budget armed as fuel), peak allocation <= 256 KiB + 4 KiB*units + 64*input bytes.
//! units = input bytes / 32 + number of list elements (+ the explicit count n for update_signature).

use crate::api::*;
use crate::common::*;
use crate::refimpl as rf;
use rand::RngCore;
use serde_json::json;
use zkryptium::bbsplus::commitment::BBSplusCommitment;
use zkryptium::bbsplus::proof::{BBSplusPoKSignature, BBSplusZKPoK};
use zkryptium::bbsplus::signature::BBSplusSignature;
use zkryptium::utils::message::bbsplus_message::BBSplusMessage;
use zkryptium::utils::verif_hooks::FUEL_MARKER;

fn probe<T, E: std::fmt::Debug>(
    ctx: &Ctx,
    op: &str,
    case: &str,
    input_bytes: usize,
    list_elems: usize,
    f: impl FnOnce() -> Result<T, E>,
) -> Option<T> {
    let units = (input_bytes / 32 + list_elems) as u64;
    let fuel = 64 + 4 * units;
    let full = format!("{}/{}", op, case);
    ctx.distinct(&full);
    let m = ctx.call(op, &full, Some(fuel), f);
    let class = case.split('/').next().unwrap_or("");
    match &m.outcome {
        Outcome::Panic(msg) if msg.contains(FUEL_MARKER) => {
            ctx.violation(&format!("C08:unbounded-work/{}/{}", op, class), json!({"case":full,"fuel":fuel,"units":units,"input_bytes":input_bytes}));
        }
        Outcome::Panic(msg) => {
            ctx.violation(&format!("C08:panic/{}/{}", op, class), json!({"case":full,"panic":msg,"input_bytes":input_bytes}));
        }
        _ => {}
    }
    let budget = 256 * 1024 + 4096 * units as usize + 64 * input_bytes;
    if m.alloc.0 > budget {
        ctx.violation(&format!("C08:unbounded-allocation/{}/{}", op, class), json!({"case":full,"peak":m.alloc.0,"biggest_request":m.alloc.1,"budget":budget}));
    }
    if ctx.events.load(std::sync::atomic::Ordering::Relaxed) % 2003 == 0 {
        ctx.sample(json!({"op":op,"case":case,"input_bytes":input_bytes,"list_elements":list_elems,"fuel":fuel,"outcome":m.outcome.short(),
                          "generators_derived":m.work.generators,"alloc_peak":m.alloc.0,"alloc_budget":budget}));
    }
    m.value
}

/// content classes for a byte string of length `n`
fn contents(r: &mut impl RngCore, n: usize, honest: &[u8], valid_tile: &[u8]) -> Vec<(&'static str, Vec<u8>)> {
    let mut v = vec![
        ("zeros", vec![0u8; n]),
        ("ff", vec![0xffu8; n]),
        ("random", rand_bytes(r, n)),
    ];
    // honest encoding truncated / extended (zero padded, then random padded) to that length
    let mut h = honest.to_vec();
    h.resize(n, 0);
    v.push(("honest-resized", h));
    let mut h = honest.to_vec();
    if h.len() < n {
        let extra = rand_bytes(r, n - h.len());
        h.extend(extra);
    } else {
        h.truncate(n);
    }
    v.push(("honest-randpad", h));
    // "all valid": well-formed elements tiled so that deep paths run
    let mut t = Vec::with_capacity(n);
    while t.len() < n && !valid_tile.is_empty() {
        t.extend_from_slice(valid_tile);
    }
    t.truncate(n);
    t.resize(n, 0);
    v.push(("valid-tiled", t));
    for flag in [0x80u8, 0xa0, 0xc0, 0xe0] {
        let mut x = rand_bytes(r, n);
        if n > 0 {
            x[0] = flag | (x[0] & 0x1f);
        }
        v.push((match flag { 0x80 => "flag80", 0xa0 => "flaga0", 0xc0 => "flagc0", _ => "flage0" }, x));
    }
    let mut inf = vec![0u8; n];
    if n > 0 {
        inf[0] = 0xc0;
    }
    v.push(("infinity", inf));
    v
}

struct HonestBits {
    pk: Vec<u8>,
    sk: Vec<u8>,
    proof: Vec<u8>,
    commitment: Vec<u8>,
    g1: Vec<u8>,
    scalar: Vec<u8>,
}

fn honest_bits<X: Sx>(r: &mut impl RngCore) -> HonestBits {
    let (sk, pk) = keypair::<X>(r);
    let msgs = gen_messages(r, 28, 0);
    let sig = Sig::<X>::sign(Some(&msgs), &sk, &pk, None).unwrap();
    let proof = Pok::<X>::proof_gen(&pk, &sig.to_bytes(), None, None, Some(&msgs), None).unwrap();
    let (com, _) = Com::<X>::commit(Some(&msgs)).unwrap();
    HonestBits {
        pk: pk.to_bytes().to_vec(),
        sk: sk.to_bytes().to_vec(),
        proof: proof.to_bytes(),
        commitment: com.to_bytes(),
        g1: sig.to_bytes()[..48].to_vec(),
        scalar: sig.to_bytes()[48..].to_vec(),
    }
}

/// A. decoders on every length in `lens`
fn decoders<X: Sx>(ctx: &Ctx, idx: u64, lens: Vec<usize>) {
    let mut r = ctx.rng("c08a", idx);
    let hb = honest_bits::<X>(&mut r);
    let mut tile_proof = hb.g1.repeat(3);
    tile_proof.extend(hb.scalar.repeat(40));
    let mut tile_commit = hb.g1.clone();
    tile_commit.extend(hb.scalar.repeat(40));
    for &n in &lens {
        for (cl, b) in contents(&mut r, n, &hb.pk, &hb.pk) {
            probe(ctx, "PublicKey::from_bytes", &format!("{cl}/len{n}"), n, 0, || BBSplusPublicKey::from_bytes(&b));
        }
        for (cl, b) in contents(&mut r, n, &hb.sk, &hb.scalar) {
            probe(ctx, "SecretKey::from_bytes", &format!("{cl}/len{n}"), n, 0, || BBSplusSecretKey::from_bytes(&b));
        }
        for (cl, b) in contents(&mut r, n, &hb.proof, &tile_proof) {
            probe(ctx, "PoKSignature::from_bytes", &format!("{cl}/len{n}"), n, 0, || Pok::<X>::from_bytes(&b));
            if n % 7 == 0 {
                probe(ctx, "BBSplusPoKSignature::from_bytes", &format!("{cl}/len{n}"), n, 0, || BBSplusPoKSignature::from_bytes(&b));
            }
        }
        for (cl, b) in contents(&mut r, n, &hb.commitment[48..], &hb.scalar) {
            probe(ctx, "ZKPoK::from_bytes", &format!("{cl}/len{n}"), n, 0, || BBSplusZKPoK::from_bytes(&b));
        }
        for (cl, b) in contents(&mut r, n, &hb.commitment, &tile_commit) {
            probe(ctx, "Commitment::from_bytes", &format!("{cl}/len{n}"), n, 0, || Com::<X>::from_bytes(&b));
            if n % 7 == 0 {
                probe(ctx, "BBSplusCommitment::from_bytes", &format!("{cl}/len{n}"), n, 0, || BBSplusCommitment::from_bytes(&b));
            }
        }
    }
}

/// fixed-size decoders on content classes
fn fixed_decoders<X: Sx>(ctx: &Ctx, idx: u64) {
    let mut r = ctx.rng("c08f", idx);
    let hb = honest_bits::<X>(&mut r);
    let mut sig = hb.g1.clone();
    sig.extend(&hb.scalar);
    for rep in 0..ctx.t(8, 64) {
        for (cl, b) in contents(&mut r, 80, &sig, &sig) {
            let a: [u8; 80] = b.clone().try_into().unwrap();
            probe(ctx, "Signature::from_bytes", &format!("{cl}/r{rep}"), 80, 0, || Sig::<X>::from_bytes(&a));
            probe(ctx, "BlindSignature::from_bytes", &format!("{cl}/r{rep}"), 80, 0, || BSig::<X>::from_bytes(&a));
            probe(ctx, "BBSplusSignature::from_bytes", &format!("{cl}/r{rep}"), 80, 0, || BBSplusSignature::from_bytes(&a));
        }
        for (cl, b) in contents(&mut r, 32, &hb.scalar, &hb.scalar) {
            let a: [u8; 32] = b.clone().try_into().unwrap();
            probe(ctx, "BlindFactor::from_bytes", &format!("{cl}/r{rep}"), 32, 0, || BlindFactor::from_bytes(&a));
            probe(ctx, "BBSplusMessage::from_bytes_be", &format!("{cl}/r{rep}"), 32, 0, || BBSplusMessage::from_bytes_be(&a));
        }
        let pk = BBSplusPublicKey::from_bytes(&hb.pk).unwrap();
        let (x, y) = pk.to_coordinates();
        let mut xy = x.to_vec();
        xy.extend_from_slice(&y);
        for (cl, b) in contents(&mut r, 192, &xy, &xy) {
            let xa: [u8; 96] = b[..96].try_into().unwrap();
            let ya: [u8; 96] = b[96..].try_into().unwrap();
            probe(ctx, "PublicKey::from_coordinates", &format!("{cl}/r{rep}"), 192, 0, || BBSplusPublicKey::from_coordinates(&xa, &ya));
        }
    }
}

/// B. serde_json decoding of all types on mutated honest JSON and random text
fn serde_inputs<X: Sx>(ctx: &Ctx, idx: u64) {
    let mut r = ctx.rng("c08s", idx);
    let (sk, pk) = keypair::<X>(&mut r);
    let msgs = gen_messages(&mut r, 3, 0);
    let sig = Sig::<X>::sign(Some(&msgs), &sk, &pk, None).unwrap();
    let proof = Pok::<X>::proof_gen(&pk, &sig.to_bytes(), None, None, Some(&msgs), Some(&[1])).unwrap();
    let (com, _) = Com::<X>::commit(Some(&msgs)).unwrap();
    let bsig = BSig::<X>::blind_sign(&sk, &pk, Some(&com.to_bytes()), None, Some(&msgs)).unwrap();
    let kp = Kp::<X>::generate(&[7u8; 32], None, None).unwrap();
    let honest: Vec<(&str, String)> = vec![
        ("PublicKey", serde_json::to_string(&pk).unwrap()),
        ("SecretKey", serde_json::to_string(&sk).unwrap()),
        ("Signature", serde_json::to_string(&sig).unwrap()),
        ("BlindSignature", serde_json::to_string(&bsig).unwrap()),
        ("PoKSignature", serde_json::to_string(&proof).unwrap()),
        ("Commitment", serde_json::to_string(&com).unwrap()),
        ("KeyPair", serde_json::to_string(&kp).unwrap()),
    ];
    let decode = |ctx: &Ctx, ty: &str, case: &str, s: &str| {
        let n = s.len();
        match ty {
            "PublicKey" => { probe(ctx, "serde/PublicKey", case, n, 0, || serde_json::from_str::<BBSplusPublicKey>(s)); }
            "SecretKey" => { probe(ctx, "serde/SecretKey", case, n, 0, || serde_json::from_str::<BBSplusSecretKey>(s)); }
            "Signature" => { probe(ctx, "serde/Signature", case, n, 0, || serde_json::from_str::<Sig<X>>(s)); }
            "BlindSignature" => { probe(ctx, "serde/BlindSignature", case, n, 0, || serde_json::from_str::<BSig<X>>(s)); }
            "PoKSignature" => { probe(ctx, "serde/PoKSignature", case, n, 0, || serde_json::from_str::<Pok<X>>(s)); }
            "Commitment" => { probe(ctx, "serde/Commitment", case, n, 0, || serde_json::from_str::<Com<X>>(s)); }
            _ => { probe(ctx, "serde/KeyPair", case, n, 0, || serde_json::from_str::<Kp<X>>(s)); }
        }
    };
    for (ty, js) in &honest {
        decode(ctx, ty, "honest", js);
        // truncation at every position (quick: every 3rd)
        for cut in (0..js.len()).step_by(ctx.t(3, 1)) {
            decode(ctx, ty, &format!("truncated/{cut}"), &js[..cut]);
        }
        // byte substitutions
        for rep in 0..ctx.t(150, 1500) {
            let mut b = js.clone().into_bytes();
            let i = rand_range(&mut r, b.len());
            b[i] = *pick(&mut r, b"0123456789abcdefg\"{}[],:- xZ\\");
            if let Ok(s) = String::from_utf8(b) {
                decode(ctx, ty, &format!("substituted/{rep}"), &s);
            }
        }
        // hex strings made odd / overlong / short, type confusion
        let variants = [
            js.replacen("\":\"", "\":\"0", 1),
            js.replacen("\":\"", "\":\"00", 1),
            js.replacen("\":\"", "\":\"zz", 1),
            js.replace("\":\"", "\":1e999,\"x\":\""),
            js.replace('"', ""),
            js.replacen("\":\"", &format!("\":\"{}", "ab".repeat(5000)), 1),
            js.replace("[", "[[[[[[[[").replace("]", "]]]]]]]]"),
            js.replacen("\":\"", "\":null,\"y\":\"", 1),
            js.replacen("\":\"", "\":[],\"y\":\"", 1),
            js.replacen("\":\"", "\":{},\"y\":\"", 1),
            format!("[{}]", js),
            format!("{{\"BBSplus\":{}}}", js),
            format!("{{\"CL03\":{}}}", js),
            format!("{{\"_Unreachable\":null}}"),
        ];
        for (k, v) in variants.iter().enumerate() {
            decode(ctx, ty, &format!("variant/{k}"), v);
        }
        // huge arrays, deep nesting, random text
        decode(ctx, ty, "huge-array", &format!("{{\"BBSplus\":{{\"m_cap\":[{}]}}}}", vec!["\"00\""; 20000].join(",")));
        decode(ctx, ty, "deep-nesting", &format!("{}{}", "[".repeat(100_000), "]".repeat(100_000)));
        decode(ctx, ty, "deep-objects", &"{\"a\":".repeat(50_000));
        for rep in 0..ctx.t(30, 300) {
            let n = rand_range(&mut r, 200);
            let t: String = (0..n).map(|_| *pick(&mut r, b"{}[]\":,0123456789abcdefABCDEFxyz \n\\u-+.eE") as char).collect();
            decode(ctx, ty, &format!("random-text/{rep}"), &t);
        }
    }
}

fn index_lists(r: &mut impl RngCore, n: usize) -> Vec<(&'static str, Vec<usize>)> {
    let mut v: Vec<(&'static str, Vec<usize>)> = vec![
        ("empty", vec![]),
        ("all", (0..n).collect()),
        ("dups", vec![0, 0, 0]),
        ("unsorted", (0..n).rev().collect()),
        ("out-of-range", vec![n]),
        ("out-of-range+1", vec![0, n + 1]),
        ("usize-max", vec![usize::MAX]),
        ("usize-max-1", vec![usize::MAX - 1, usize::MAX]),
        ("2^32", vec![1 << 32]),
        ("longer-than-n", (0..n + 3).collect()),
        ("many-dups", vec![0; 1000]),
        ("many-distinct", (0..1000).collect()),
    ];
    v.push(("random", (0..4).map(|_| rand_range(r, n + 2)).collect()));
    v
}

/// C. verification / generation entry points with hostile index lists, counts and L
fn entry_points<X: Sx>(ctx: &Ctx, idx: u64, l: usize, m: usize) {
    let mut r = ctx.rng("c08c", idx);
    let (sk, pk) = keypair::<X>(&mut r);
    let msgs = gen_messages(&mut r, l, 0);
    let cm = gen_messages(&mut r, m, 0);
    let sig = Sig::<X>::sign(Some(&msgs), &sk, &pk, None).unwrap();
    let sigb = sig.to_bytes();
    let d: Vec<usize> = (0..l).step_by(2).collect();
    let proof = Pok::<X>::proof_gen(&pk, &sigb, None, None, Some(&msgs), Some(&d)).unwrap();
    let (com, bf) = Com::<X>::commit(Some(&cm)).unwrap();
    let bsig = BSig::<X>::blind_sign(&sk, &pk, Some(&com.to_bytes()), None, Some(&msgs)).unwrap();
    let bsb = bsig.to_bytes();
    let c: Vec<usize> = (0..m).step_by(2).collect();
    let bproof = Pok::<X>::blind_proof_gen(&pk, &bsb, None, None, Some(&msgs), Some(&cm), Some(&d), Some(&c), Some(&bf)).unwrap();
    let n = l + 1 + m;
    let base = format!("L{l}M{m}");
    let msg_lists: Vec<(&str, Vec<Vec<u8>>)> = vec![
        ("none", vec![]),
        ("honest", msgs.clone()),
        ("one-less", msgs[..l.saturating_sub(1)].to_vec()),
        ("one-more", { let mut x = msgs.clone(); x.push(vec![1]); x }),
        ("many", vec![vec![0u8; 3]; 300]),
    ];
    for (mn, ml) in &msg_lists {
        let bytes: usize = ml.iter().map(|x| x.len()).sum();
        probe(ctx, "verify", &format!("msgs-{mn}/{base}"), bytes + 80, ml.len(), || sig.verify(&pk, Some(ml), None));
        probe(ctx, "verify_blind_sign", &format!("msgs-{mn}/{base}"), bytes + 80, ml.len() + cm.len(), || bsig.verify_blind_sign(&pk, None, Some(ml), Some(&cm), Some(&bf)));
        probe(ctx, "verify_blind_sign", &format!("committed-{mn}/{base}"), bytes + 80, ml.len() + msgs.len(), || bsig.verify_blind_sign(&pk, None, Some(&msgs), Some(ml), Some(&bf)));
        for (inm, il) in index_lists(&mut r, l) {
            let units = ml.len() + il.len();
            probe(ctx, "proof_gen", &format!("idx-{inm}/msgs-{mn}/{base}"), bytes + 80, units, || Pok::<X>::proof_gen(&pk, &sigb, None, None, Some(ml), Some(&il)));
            probe(ctx, "proof_verify", &format!("idx-{inm}/msgs-{mn}/{base}"), bytes + proof.to_bytes().len(), units, || proof.proof_verify(&pk, Some(ml), Some(&il), None, None));
            probe(ctx, "blind_proof_gen", &format!("idx-{inm}/msgs-{mn}/{base}"), bytes + 80, units + cm.len(), || Pok::<X>::blind_proof_gen(&pk, &bsb, None, None, Some(ml), Some(&cm), Some(&il), Some(&c), Some(&bf)));
            probe(ctx, "blind_proof_gen", &format!("cidx-{inm}/msgs-{mn}/{base}"), bytes + 80, units + msgs.len(), || Pok::<X>::blind_proof_gen(&pk, &bsb, None, None, Some(&msgs), Some(ml), Some(&d), Some(&il), Some(&bf)));
        }
    }
    // blind_proof_verify: L x index lists x message counts
    let dm: Vec<Vec<u8>> = d.iter().map(|&i| msgs[i].clone()).collect();
    let dcm: Vec<Vec<u8>> = c.iter().map(|&j| cm[j].clone()).collect();
    let pl = bproof.to_bytes().len();
    let ls: Vec<Option<usize>> = vec![None, Some(0), Some(1), Some(l), Some(n - 1), Some(n), Some(n + 1), Some(n.wrapping_sub(2)), Some(1 << 20), Some(1 << 40), Some(usize::MAX - 1), Some(usize::MAX)];
    for ll in &ls {
        let lname = ll.map(|x| x.to_string()).unwrap_or("None".into());
        probe(ctx, "blind_proof_verify", &format!("L-{lname}/honest-lists/{base}"), pl, d.len() + c.len(), || bproof.blind_proof_verify(&pk, None, None, *ll, Some(&dm), Some(&dcm), Some(&d), Some(&c)));
        for (inm, il) in index_lists(&mut r, n) {
            let ml: Vec<Vec<u8>> = il.iter().take(40).map(|_| vec![7u8]).collect();
            let il2: Vec<usize> = il.iter().copied().take(40).collect();
            probe(ctx, "blind_proof_verify", &format!("L-{lname}/idx-{inm}/{base}"), pl, il2.len() * 2 + c.len(), || bproof.blind_proof_verify(&pk, None, None, *ll, Some(&ml), Some(&dcm), Some(&il2), Some(&c)));
            probe(ctx, "blind_proof_verify", &format!("L-{lname}/cidx-{inm}/{base}"), pl, il2.len() * 2 + d.len(), || bproof.blind_proof_verify(&pk, None, None, *ll, Some(&dm), Some(&ml), Some(&d), Some(&il2)));
            // a plain proof through the blind verifier and vice versa
            probe(ctx, "blind_proof_verify", &format!("plain-proof/L-{lname}/idx-{inm}/{base}"), pl, il2.len() * 2, || proof.blind_proof_verify(&pk, None, None, *ll, Some(&ml), None, Some(&il2), None));
        }
    }
    // blind_proof_verify: message counts that do not match the index counts (either list, both directions, absent)
    {
        let cut = |v: &Vec<Vec<u8>>| v[..v.len().saturating_sub(1)].to_vec();
        let more = |v: &Vec<Vec<u8>>| { let mut x = v.clone(); x.push(vec![9]); x };
        let variants = |v: &Vec<Vec<u8>>| -> Vec<(&'static str, Option<Vec<Vec<u8>>>)> {
            vec![("absent", None), ("empty", Some(vec![])), ("one-less", Some(cut(v))), ("one-more", Some(more(v))), ("honest", Some(v.clone())), ("many", Some(vec![vec![1u8]; 200]))]
        };
        for ll in [None, Some(l)] {
            let lname = ll.map(|x| x.to_string()).unwrap_or("None".into());
            for (an, a) in variants(&dm) {
                for (bn, b) in variants(&dcm) {
                    let units = a.as_ref().map_or(0, |x| x.len()) + b.as_ref().map_or(0, |x| x.len()) + d.len() + c.len();
                    probe(ctx, "blind_proof_verify", &format!("L-{lname}/msgs-{an}/committed-{bn}/{base}"), pl, units, || {
                        bproof.blind_proof_verify(&pk, None, None, ll, a.as_deref(), b.as_deref(), Some(&d), Some(&c))
                    });
                    if an == "honest" || bn == "honest" {
                        probe(ctx, "blind_proof_verify", &format!("L-{lname}/msgs-{an}/committed-{bn}/no-indexes/{base}"), pl, units, || {
                            bproof.blind_proof_verify(&pk, None, None, ll, a.as_deref(), b.as_deref(), None, None)
                        });
                    }
                }
            }
        }
    }
    // signatures / proofs given as arbitrary octets to the holder-side entry points
    for n_ in [0usize, 1, 79, 80, 81, 160] {
        for (cl, b) in contents(&mut r, n_, &sigb, &sigb) {
            probe(ctx, "proof_gen", &format!("sig-octets-{cl}/len{n_}/{base}"), n_, msgs.len(), || Pok::<X>::proof_gen(&pk, &b, None, None, Some(&msgs), Some(&d)));
            probe(ctx, "blind_proof_gen", &format!("sig-octets-{cl}/len{n_}/{base}"), n_, msgs.len() + cm.len(), || Pok::<X>::blind_proof_gen(&pk, &b, None, None, Some(&msgs), Some(&cm), Some(&d), Some(&c), Some(&bf)));
        }
    }
}

/// D. blind_sign / deserialize_and_validate_commit with commitment octets of every length
fn commitments<X: Sx>(ctx: &Ctx, idx: u64, lens: Vec<usize>) {
    let mut r = ctx.rng("c08d", idx);
    let (sk, pk) = keypair::<X>(&mut r);
    let hb = honest_bits::<X>(&mut r);
    let mut tile = hb.g1.clone();
    tile.extend(hb.scalar.repeat(40));
    let msgs = gen_messages(&mut r, 2, 0);
    let api = X::ID.blind_api_id();
    let blind_api = [b"BLIND_".as_slice(), &api].concat();
    for &n in &lens {
        for (cl, b) in contents(&mut r, n, &hb.commitment, &tile) {
            probe(ctx, "blind_sign", &format!("{cl}/len{n}"), n, msgs.len(), || BSig::<X>::blind_sign(&sk, &pk, Some(&b), None, Some(&msgs)));
            if n % 16 == 0 || n < 130 {
                let mm = n.saturating_sub(112) / 32;
                for gcount in [0usize, 1, mm, mm + 1, mm + 2] {
                    let gens = Generators::create::<X::CS>(gcount, Some(&blind_api));
                    probe(ctx, "deserialize_and_validate_commit", &format!("{cl}/len{n}/gens{gcount}"), n, gcount, || Com::<X>::deserialize_and_validate_commit(Some(&b), &gens, Some(&api)));
                }
            }
        }
    }
}

/// E. update_signature with hostile positions and counts
fn updates<X: Sx>(ctx: &Ctx, idx: u64) {
    let mut r = ctx.rng("c08e", idx);
    let (sk, pk) = keypair::<X>(&mut r);
    for l in [1usize, 2, 5] {
        let msgs = gen_messages(&mut r, l, 0);
        let sig = Sig::<X>::sign(Some(&msgs), &sk, &pk, None).unwrap();
        let ns: Vec<usize> = (0..=ctx.t(20, 64)).chain([100, 255, 256, 1000, 4096, usize::MAX]).collect();
        for &n in &ns {
            let idxs: Vec<usize> = (0..=(n.min(12)).saturating_add(1)).chain([n.wrapping_sub(1), n, n.wrapping_add(1), 1 << 32, usize::MAX - 1, usize::MAX]).collect();
            for &ui in &idxs {
                if n >= 1000 && ui > 2 && ui < (1 << 32) {
                    continue;
                }
                let units = if n == usize::MAX { 0 } else { n };
                probe(ctx, "update_signature", &format!("upd/n{}/idx{}/L{l}", n, ui), 80 + 2, units / 4 + 1, || sig.update_signature(&sk, &msgs[0], b"new", ui, n));
            }
        }
    }
    let _ = rf::i2osp8(0);
}

pub fn scenarios(ctx: &Ctx) -> Vec<Scenario> {
    let mut v = Vec::new();
    let all: Vec<usize> = (0..=1024).collect();
    // every length 0..=1024, split over 16 scenarios per suite
    for (k, chunk) in all.chunks(65).enumerate() {
        let (c1, c2) = (chunk.to_vec(), chunk.to_vec());
        let i = k as u64;
        if ctx.quick() {
            // quick: lengths alternate between the suites; thorough: both suites see every length
            if k % 2 == 0 {
                v.push(scenario(format!("A/sha/len{}..", chunk[0]), move |c| decoders::<Sha>(c, i, c1)));
            } else {
                v.push(scenario(format!("A/shake/len{}..", chunk[0]), move |c| decoders::<Shake>(c, i, c2)));
            }
        } else {
            v.push(scenario(format!("A/sha/len{}..", chunk[0]), move |c| decoders::<Sha>(c, i, c1)));
            v.push(scenario(format!("A/shake/len{}..", chunk[0]), move |c| decoders::<Shake>(c, i, c2)));
        }
    }
    v.push(scenario("F/sha", |c| fixed_decoders::<Sha>(c, 100)));
    v.push(scenario("F/shake", |c| fixed_decoders::<Shake>(c, 101)));
    v.push(scenario("B/sha", |c| serde_inputs::<Sha>(c, 200)));
    v.push(scenario("B/shake", |c| serde_inputs::<Shake>(c, 201)));
    // (170, 2) / (1400, 2): more hidden values than any internal buffer, batch or one-call expansion limit holds
    // sizes at word-width boundaries of any position bitmap: exactly 63 / 64 / 65 / 128 positions (plain and blind)
    let big: &[(usize, usize)] = ctx.t(&[(170, 2), (64, 0), (63, 0), (40, 23), (128, 0)][..], &[(170, 2), (64, 0), (63, 0), (65, 0), (40, 23), (128, 0), (127, 0), (2, 170), (1400, 2)][..]);
    for (k, (l, m)) in [(0usize, 0usize), (1, 0), (3, 2), (2, 5)].into_iter().chain(big.iter().copied()).enumerate() {
        let i = 300 + k as u64;
        v.push(scenario(format!("C/sha/L{l}M{m}"), move |c| entry_points::<Sha>(c, i, l, m)));
        v.push(scenario(format!("C/shake/L{l}M{m}"), move |c| entry_points::<Shake>(c, i, l, m)));
    }
    let step = ctx.t(4, 1);
    for (k, chunk) in all.chunks(129).enumerate() {
        let lens: Vec<usize> = chunk.iter().copied().filter(|n| n % step == 0 || *n < 200 || (n + 16) % 32 <= 1).collect();
        let (c1, c2) = (lens.clone(), lens);
        let i = 400 + k as u64;
        v.push(scenario(format!("D/sha/len{}..", chunk[0]), move |c| commitments::<Sha>(c, i, c1)));
        v.push(scenario(format!("D/shake/len{}..", chunk[0]), move |c| commitments::<Shake>(c, i, c2)));
    }
    v.push(scenario("E/sha", |c| updates::<Sha>(c, 500)));
    v.push(scenario("E/shake", |c| updates::<Shake>(c, 501)));
    v
}

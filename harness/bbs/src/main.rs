//! zkmon-bbs: runtime monitors for the BBS / Blind-BBS properties C01..C12 of zkryptium.
//! Usage: zkmon-bbs <Cnn|selfcheck> --tier quick|thorough --seed N --out FILE [--log FILE]
//!                  [--threads N] [--only-scenario K] [--repo /repo]

#![allow(non_snake_case)]

mod api;
mod common;
mod fixtures;
mod refimpl;

mod c01;
mod c02;
mod c03;
mod c04;
mod c05;
mod c06;
mod c07;
mod c08;
mod c09;
mod c10;
mod c11;
mod c12;

use common::{Ctx, Tier};

#[global_allocator]
static ALLOC: common::alloc_count::Counting = common::alloc_count::Counting;
use serde_json::json;

fn arg(args: &[String], name: &str) -> Option<String> {
    args.iter().position(|a| a == name).and_then(|i| args.get(i + 1).cloned())
}

fn main() {
    let args: Vec<String> = std::env::args().collect();
    if args.len() < 2 {
        eprintln!("usage: zkmon-bbs <Cnn|selfcheck> --tier quick|thorough --seed N --out FILE");
        std::process::exit(2);
    }
    let prop = args[1].clone();
    let tier = match arg(&args, "--tier").as_deref() {
        Some("thorough") => Tier::Thorough,
        _ => Tier::Quick,
    };
    let seed: u64 = arg(&args, "--seed").and_then(|s| s.parse().ok()).unwrap_or(1);
    let out = arg(&args, "--out");
    let log = arg(&args, "--log");
    let threads: usize = arg(&args, "--threads").and_then(|s| s.parse().ok()).unwrap_or(16);
    let repo = arg(&args, "--repo").unwrap_or_else(|| "/repo".into());


    let t0 = std::time::Instant::now();
    let mut ctx = Ctx::new(&prop, tier, seed, log.as_deref());
    ctx.only_scenario = arg(&args, "--only-scenario").and_then(|s| s.parse().ok());
    ctx.set_extra("threads", json!(threads));
    ctx.flush_calls = prop == "C08";

    // C07 sub-process mode: emit the randomness-derived values of a fixed workload
    if prop == "C07" && args.iter().any(|a| a == "--emit") {
        c07::emit_process_values(&ctx);
        return;
    }

    let needs_ref = matches!(prop.as_str(), "selfcheck" | "C04" | "C06" | "C09" | "C10" | "C12");
    if needs_ref {
        let rep = fixtures::validate(&repo);
        ctx.set_extra("reference_fixture_checks", json!(rep.checks));
        if !rep.mismatches.is_empty() {
            ctx.inconclusive(&format!("reference disagrees with fixtures: {:?}", rep.mismatches));
        }
        if prop == "selfcheck" {
            println!("reference vs fixtures: {} checks, mismatches: {:?}", rep.checks, rep.mismatches);
            std::process::exit(if rep.mismatches.is_empty() { 0 } else { 3 });
        }
    }

    let scenarios = match prop.as_str() {
        "C01" => c01::scenarios(&ctx),
        "C02" => c02::scenarios(&ctx),
        "C03" => c03::scenarios(&ctx),
        "C04" => c04::scenarios(&ctx),
        "C05" => c05::scenarios(&ctx),
        "C06" => c06::scenarios(&ctx),
        "C07" => c07::scenarios(&ctx),
        "C08" => c08::scenarios(&ctx),
        "C09" => c09::scenarios(&ctx),
        "C10" => c10::scenarios(&ctx),
        "C11" => c11::scenarios(&ctx),
        "C12" => c12::scenarios(&ctx),
        _ => {
            eprintln!("unknown property {}", prop);
            std::process::exit(2);
        }
    };
    // keep panic messages of monitored calls out of stderr (they are recorded as outcomes)
    std::panic::set_hook(Box::new(|_| {}));
    common::run_scenarios(&ctx, scenarios, threads);
    let _ = std::panic::take_hook();
    match prop.as_str() {
        "C07" => c07::finish(&ctx),
        "C10" => c10::finish(&ctx),
        "C11" => c11::finish(&ctx),
        _ => {}
    }
    let res = ctx.finish(t0.elapsed().as_secs_f64());
    let s = serde_json::to_string(&res).unwrap();
    match out {
        Some(p) => std::fs::write(p, s).unwrap(),
        None => println!("{}", s),
    }
}

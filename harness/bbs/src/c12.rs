//! C12 — Signature update is correct over any history of updates (model-based history monitor).
//! Model: the message vector; reference: A* = B(msgs)/(sk+e) from the independent implementation.

use crate::api::*;
use crate::common::*;
use crate::refimpl as rf;
use rand::RngCore;
use serde_json::json;
use std::collections::HashSet;

fn a_star(s: rf::SuiteId, sk: &bls12_381_plus::Scalar, e: &bls12_381_plus::Scalar, header: &[u8], msgs: &[Vec<u8>]) -> [u8; 48] {
    // B(msgs) / (sk + e) with the reference's generators, domain and message mapping
    let api = s.api_id();
    let w = rf::sk_to_pk(sk);
    let gens = rf::create_generators(s, msgs.len() + 1, &api);
    let ms = rf::messages_to_scalars(s, msgs, &api).unwrap();
    let domain = rf::calculate_domain(s, &w, &gens[0], &gens[1..], header, &api).unwrap();
    let mut b = s.p1() + gens[0] * domain;
    for (h, m) in gens[1..].iter().zip(&ms) {
        b += h * m;
    }
    rf::g1_c(&(b * (sk + e).invert().unwrap()))
}

fn history<X: Sx, Y: Sx>(ctx: &Ctx, idx: u64, l: usize, steps: usize, exhaustive_positions: bool) {
    let mut r = ctx.rng("c12", idx);
    // prior history on this thread under the OTHER suite with the very values this walk will use (the recurring values, the
    // empty value, a scalar-sized one): anything remembered per value must not leak from one suite into the other
    {
        let (sk_y, pk_y) = key_from_scalar(crate::c04::rand_scalar(&mut r));
        let warm: Vec<Vec<u8>> = vec![b"A".to_vec(), b"B".to_vec(), vec![], vec![7u8; 32]];
        if let Some(mut s) = ctx.call("sign", "other-suite-history", None, || Sig::<Y>::sign(Some(&warm), &sk_y, &pk_y, None)).value {
            let mut cur = warm.clone();
            for (i, nv) in [(0usize, b"B".to_vec()), (1, b"A".to_vec()), (2, b"A".to_vec()), (3, vec![]), (0, vec![7u8; 32])] {
                if let Some(n2) = ctx.call("update_signature", "other-suite-history", None, || s.update_signature(&sk_y, &cur[i], &nv, i, warm.len())).value {
                    cur[i] = nv;
                    if !ctx.call("verify", "other-suite-history", None, || n2.verify(&pk_y, Some(&cur), None)).outcome.is_ok() {
                        ctx.violation("C12:updated-signature-does-not-verify", json!({"case":"other-suite-history","suite":name::<Y>(),"messages":msgs_json(&cur)}));
                    }
                    s = n2;
                }
            }
        }
    }
    let skv = crate::c04::rand_scalar(&mut r);
    let (sk, pk) = key_from_scalar(skv);
    let hdr = Hdr::gen(&mut r, &[1, 30]);
    let ho = hdr.as_opt();
    let mut msgs = gen_messages(&mut r, l, idx as usize);
    let base = format!("{}/L{}/hdr={}", name::<X>(), l, hdr.class());
    let Some(mut sig) = ctx.call("sign", &base, None, || Sig::<X>::sign(Some(&msgs), &sk, &pk, ho)).value else {
        ctx.inconclusive("C12: honest sign failed (C01's business)");
        return;
    };
    let e0 = sig.e();
    let mut earlier: Vec<Vec<Vec<u8>>> = vec![msgs.clone()];
    let mut states: HashSet<Vec<Vec<u8>>> = HashSet::new();
    states.insert(msgs.clone());
    let mut plan: Vec<(usize, Vec<u8>, &'static str)> = vec![];
    if exhaustive_positions {
        for i in 0..l {
            plan.push((i, rand_bytes(&mut r, 12), "fresh"));
        }
    }
    for _ in 0..steps {
        let i = rand_range(&mut r, l);
        let kind = rand_range(&mut r, 9);
        plan.push(match kind {
            0 => (i, msgs[i].clone(), "same-as-old"), // placeholder, refreshed below
            1 => (i, vec![], "empty"),
            2 => (i, rand_bytes(&mut r, 300), "long"),
            3 => (i, b"A".to_vec(), "revisit-A"),
            4 => (i, b"B".to_vec(), "revisit-B"),
            7 => (i, vec![7u8; 32], "revisit-scalar-sized"),
            6 => {
                // exactly 32 octets: the size of a scalar / digest; with a leading byte below 0x73 it is also a canonical scalar encoding
                let mut v = rand_bytes(&mut r, 32);
                if rand_range(&mut r, 2) == 0 {
                    v[0] %= 0x73;
                }
                (i, v, "scalar-sized")
            }
            5 => {
                // lengths around the 8-, 16- and 17-bit boundaries of any length prefix
                let n = [255usize, 256, 65535, 65536, 65537, 131072][rand_range(&mut r, 6)];
                (i, rand_bytes(&mut r, n), "boundary-length")
            }
            _ => (i, rand_bytes(&mut r, 8), "fresh"),
        });
    }
    if l > 64 {
        // positions at the far end and around the byte boundary of a position counter
        for i in [l - 1, l - 2, 253, 254, 255, 256, 257, 127, 128, 64] {
            if i < l {
                plan.push((i, rand_bytes(&mut r, 9), "far-position"));
            }
        }
    }
    for (step, (i, mut newv, kind)) in plan.into_iter().enumerate() {
        if kind == "same-as-old" {
            newv = msgs[i].clone();
        }
        let case = format!("{}/step{}/pos{}/{}", base, step, i, kind);
        ctx.distinct(&format!("{}/pos{}/{}", base, i, kind));
        let old = msgs[i].clone();
        let u = ctx.call("update_signature", &case, None, || sig.update_signature(&sk, &old, &newv, i, l));
        let Some(nsig) = u.value else {
            ctx.violation("C12:update-failed", json!({"case":case,"outcome":u.outcome.short()}));
            return;
        };
        msgs[i] = newv.clone();
        ctx.count("updates", 1);
        // current signature verifies for the current vector
        let v = ctx.call("verify", &case, None, || nsig.verify(&pk, Some(&msgs), ho));
        if !v.outcome.is_ok() {
            ctx.violation("C12:updated-signature-does-not-verify", json!({"case":case,"outcome":v.outcome.short(),"messages":msgs_json(&msgs)}));
        }
        // equals what the key holder would obtain for that vector with the same exponent
        if nsig.e() != e0 {
            ctx.violation("C12:exponent-changed", json!({"case":case}));
        }
        let want = a_star(X::ID, &skv, &e0, hdr.octets(), &msgs);
        if nsig.to_bytes()[..48] != want {
            ctx.violation("C12:updated-A-differs-from-reference", json!({"case":case,"got":hx(&nsig.to_bytes()[..48]),"want":hx(&want)}));
        }
        // does not verify for any earlier, different vector
        for (k, em) in earlier.iter().enumerate().rev().take(6) {
            if em != &msgs {
                let v = ctx.call("verify", &case, None, || nsig.verify(&pk, Some(em), ho));
                if v.outcome.is_ok() {
                    ctx.violation("C12:verifies-for-earlier-vector", json!({"case":case,"earlier_step":k}));
                }
            }
        }
        // an update stating a wrong old value must not verify for the intended new vector
        let wrong_old = { let mut w = old.clone(); w.push(0x55); w };
        let intended = rand_bytes(&mut r, 6);
        let w = ctx.call("update_signature", &case, None, || nsig.update_signature(&sk, &wrong_old, &intended, i, l));
        if let Some(ws) = w.value {
            let mut target = msgs.clone();
            target[i] = intended;
            if wrong_old != msgs[i] {
                let v = ctx.call("verify", &case, None, || ws.verify(&pk, Some(&target), ho));
                if v.outcome.is_ok() {
                    ctx.violation("C12:wrong-old-value-accepted", json!({"case":case}));
                }
            }
        }
        if !states.insert(msgs.clone()) {
            ctx.count("revisited_states", 1);
        }
        earlier.push(msgs.clone());
        sig = nsig;
    }
    // out-of-range positions are refused with an error (a panic is a violation here)
    for ui in [l, l + 1, 2 * l, 1 << 32, usize::MAX - 1, usize::MAX] {
        let case = format!("{}/out-of-range/{}", base, ui);
        ctx.distinct(&case);
        // stated old and new value: different, identical, both empty (a no-op update is still out of range)
        let pairs: [(&[u8], &[u8], &str); 3] = [(&msgs[0], b"x", "different"), (b"same", b"same", "identical"), (b"", b"", "both-empty")];
        for (old, new, vn) in pairs {
            let u = ctx.call("update_signature", &case, None, || sig.update_signature(&sk, old, new, ui, l));
            match u.outcome {
                Outcome::Err(_) => {}
                Outcome::Ok => ctx.violation("C12:out-of-range-position-accepted", json!({"case":case,"values":vn})),
                Outcome::Panic(p) => ctx.violation("C12:out-of-range-position-panics", json!({"case":case,"values":vn,"panic":p})),
            }
        }
    }
    // wrong n: the updated signature must not verify for the intended vector unless n is the real count
    for n in [l + 1, l.saturating_sub(1).max(1), usize::MAX] {
        if n == l {
            continue;
        }
        let case = format!("{}/wrong-n/{}", base, n);
        let u = ctx.call("update_signature", &case, Some(l as u64 + 70), || sig.update_signature(&sk, &msgs[0], b"y", 0, n));
        if u.outcome.is_panic() {
            ctx.violation("C12:wrong-n-panics", json!({"case":case,"outcome":u.outcome.short()}));
        }
        let u = ctx.call("update_signature", &case, Some(l as u64 + 70), || sig.update_signature(&sk, b"same", b"same", 0, n));
        if u.outcome.is_panic() {
            ctx.violation("C12:wrong-n-panics", json!({"case":case,"values":"identical","outcome":u.outcome.short()}));
        }
    }
    ctx.count("distinct_states_visited", states.len() as u64);
    ctx.sample(json!({"history":base,"steps":earlier.len()-1,"distinct_states":states.len()}));
}

pub fn scenarios(ctx: &Ctx) -> Vec<Scenario> {
    let mut v = Vec::new();
    let steps = ctx.t(8usize, 32usize);
    let mut idx = 0u64;
    for l in 1..=5usize {
        for rep in 0..ctx.t(2, 6) {
            let i = idx;
            idx += 1;
            let _ = rep;
            v.push(scenario(format!("sha/L{l}"), move |c| history::<Sha, Shake>(c, i, l, steps, true)));
            v.push(scenario(format!("shake/L{l}"), move |c| history::<Shake, Sha>(c, i, l, steps, true)));
        }
    }
    for &l in ctx.t(&[16usize, 64, 256, 300][..], &[8usize, 16, 33, 64, 100, 255, 256, 257, 300, 1000][..]) {
        let i = idx;
        idx += 1;
        v.push(scenario(format!("sha/L{l}"), move |c| history::<Sha, Shake>(c, i, l, steps, false)));
        v.push(scenario(format!("shake/L{l}"), move |c| history::<Shake, Sha>(c, i, l, steps, false)));
    }
    v
}

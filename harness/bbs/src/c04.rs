//! C04 — BBS proof soundness: only statements backed by a signature verify.
//! Workload A: single edits of honest proofs / statements. Workload B: forgeries assembled from
//! public information only (degenerate-element families), through octets and through serde.

use crate::api::*;
use crate::common::*;
use crate::refimpl::{self as rf, SuiteId};
use bls12_381_plus::{G1Projective, G2Projective, Scalar};
use ff::Field;
use group::Group;
use rand::RngCore;
use serde_json::{json, Value};

pub fn rand_scalar(r: &mut impl RngCore) -> Scalar {
    rf::os2ip_mod_r(&rand_bytes(r, 48))
}

struct Honest {
    pk: BBSplusPublicKey,
    hdr: Hdr,
    ph: Hdr,
    msgs: Vec<Vec<u8>>,
    d: Vec<usize>,
    proof: Vec<u8>,
}

/// verify `proof` octets against a statement; anything but Ok is fine.
fn must_reject<X: Sx>(
    ctx: &Ctx,
    kind: &str,
    case: &str,
    pk: &BBSplusPublicKey,
    proof: &[u8],
    dm: &[Vec<u8>],
    di: &[usize],
    hdr: Option<&[u8]>,
    ph: Option<&[u8]>,
    extra: Value,
) {
    ctx.distinct(case);
    let dec = ctx.call("from_bytes", case, None, || Pok::<X>::from_bytes(proof));
    let Some(p) = dec.value else { return };
    let v = ctx.call("proof_verify", case, None, || p.proof_verify(pk, Some(dm), Some(di), hdr, ph));
    if v.outcome.is_ok() {
        ctx.violation(
            &format!("C04:accepted/{}", kind),
            json!({"case":case,"pk":hx_full(&pk.to_bytes()),"proof":hx_full(proof),"disclosed_messages":msgs_json(dm),
                   "disclosed_indexes":di.iter().map(|i| i.to_string()).collect::<Vec<_>>(),"header":hdr.map(hx),"ph":ph.map(hx),"extra":extra}),
        );
    }
    if v.outcome.is_panic() {
        ctx.count("panics_seen(counted as not accepted; C08 judges them)", 1);
    }
}

fn edits<X: Sx>(ctx: &Ctx, idx: u64, l: usize, d: Vec<usize>, all_flips: bool) {
    let mut r = ctx.rng("c04a", idx);
    history_warmup::<X>(ctx, &mut r, l.min(40));
    let (sk, pk) = keypair::<X>(&mut r);
    let msgs = gen_messages(&mut r, l, 0);
    let hdr = Hdr::gen(&mut r, &[1, 20]);
    let ph = Hdr::gen(&mut r, &[1, 20]);
    let Some(sig) = ctx.call("sign", "honest", None, || Sig::<X>::sign(Some(&msgs), &sk, &pk, hdr.as_opt())).value else {
        ctx.inconclusive("C04: honest sign failed");
        return;
    };
    let Some(proof) = ctx.call("proof_gen", "honest", None, || Pok::<X>::proof_gen(&pk, &sig.to_bytes(), hdr.as_opt(), ph.as_opt(), Some(&msgs), Some(&d))).value else {
        ctx.inconclusive("C04: honest proof_gen failed (C03's business)");
        return;
    };
    let dm: Vec<Vec<u8>> = d.iter().map(|&i| msgs[i].clone()).collect();
    if !ctx.call("proof_verify", "honest", None, || proof.proof_verify(&pk, Some(&dm), Some(&d), hdr.as_opt(), ph.as_opt())).outcome.is_ok() {
        ctx.inconclusive("C04: honest proof did not verify (C03's business)");
        return;
    }
    let h = Honest { pk, hdr, ph, msgs, d, proof: proof.to_bytes() };
    let mask: String = if l <= 16 { (0..l).map(|i| if h.d.contains(&i) { '1' } else { '0' }).collect() } else { format!("{:?}", h.d) };
    let base = format!("{}/L{}/D={}", name::<X>(), l, mask);
    let (ho, po) = (h.hdr.as_opt(), h.ph.as_opt());
    let rj = |kind: &str, pos: String, pk: &BBSplusPublicKey, proof: &[u8], dm: &[Vec<u8>], di: &[usize], hd: Option<&[u8]>, p: Option<&[u8]>| {
        must_reject::<X>(ctx, kind, &format!("{}/{}/{}", base, kind, pos), pk, proof, dm, di, hd, p, json!({"honest_disclosed":h.d,"L":l}));
    };
    let rr = h.d.len();
    // disclosed message altered
    for k in 0..rr {
        let mut m = dm.clone();
        if m[k].is_empty() { m[k].push(0) } else { m[k][0] ^= 1 }
        rj("disclosed-msg-altered", format!("{k}"), &h.pk, &h.proof, &m, &h.d, ho, po);
        let mut m = dm.clone();
        m[k] = rand_bytes(&mut r, 32);
        rj("disclosed-msg-replaced", format!("{k}"), &h.pk, &h.proof, &m, &h.d, ho, po);
        let mut m = dm.clone();
        m[k].push(0);
        rj("disclosed-msg-zero-appended", format!("{k}"), &h.pk, &h.proof, &m, &h.d, ho, po);
        if dm[k].len() > 1 {
            let mut m = dm.clone();
            let n = m[k].len();
            m[k][n - 1] ^= 1;
            rj("disclosed-msg-last-bit", format!("{k}"), &h.pk, &h.proof, &m, &h.d, ho, po);
            let mut m = dm.clone();
            m[k].pop();
            rj("disclosed-msg-truncated", format!("{k}"), &h.pk, &h.proof, &m, &h.d, ho, po);
        }
    }
    // disclosed index moved to every other position, out of range, usize::MAX
    for k in 0..rr {
        let aliases = [h.d[k] + 64, h.d[k] + 128, h.d[k] + 256, h.d[k] + 65536, h.d[k].wrapping_sub(64), h.d[k].wrapping_sub(256), h.d[k] ^ 1];
        let near: Vec<usize> = if l <= 12 { (0..l + 2).collect() } else { vec![0, 1, h.d[k].saturating_sub(1), h.d[k] + 1, l - 1, l, l + 1] };
        for to in near.into_iter().chain(aliases).chain([usize::MAX - 1, usize::MAX, 1 << 32]) {
            if to == h.d[k] {
                continue;
            }
            let mut di = h.d.clone();
            di[k] = to;
            rj("disclosed-index-moved", format!("{k}->{to}"), &h.pk, &h.proof, &dm, &di, ho, po);
        }
    }
    // two disclosed messages swapped (messages only; indexes only)
    for a in 0..rr {
        for b in a + 1..rr {
            if dm[a] != dm[b] {
                let mut m = dm.clone();
                m.swap(a, b);
                rj("disclosed-msgs-swapped", format!("{a}-{b}"), &h.pk, &h.proof, &m, &h.d, ho, po);
            }
        }
    }
    // a disclosed index listed twice, once with the true message and once with an unsigned one (lists stay
    // equally long), in both orders; and an index repeated with its own message
    for k in 0..rr {
        for forged_first in [false, true] {
            let mut m = dm.clone();
            let mut di = h.d.clone();
            let pos = if forged_first { k } else { k + 1 };
            m.insert(pos, b"role: admin".to_vec());
            di.insert(pos, h.d[k]);
            rj("index-repeated-with-forged-message", format!("{k}/{forged_first}"), &h.pk, &h.proof, &m, &di, ho, po);
        }
        let mut m = dm.clone();
        let mut di = h.d.clone();
        m.insert(k, dm[k].clone());
        di.insert(k, h.d[k]);
        rj("pair-repeated", format!("{k}"), &h.pk, &h.proof, &m, &di, ho, po);
    }
    // one disclosed pair dropped / one (true) pair added for a hidden position / bogus pair added
    for k in 0..rr {
        let mut m = dm.clone();
        let mut di = h.d.clone();
        m.remove(k);
        di.remove(k);
        rj("disclosed-pair-dropped", format!("{k}"), &h.pk, &h.proof, &m, &di, ho, po);
    }
    for j in (0..l).filter(|j| !h.d.contains(j)).take(12) {
        let mut pairs: Vec<(usize, Vec<u8>)> = h.d.iter().copied().zip(dm.iter().cloned()).collect();
        pairs.push((j, h.msgs[j].clone()));
        pairs.sort();
        let di: Vec<usize> = pairs.iter().map(|p| p.0).collect();
        let m: Vec<Vec<u8>> = pairs.into_iter().map(|p| p.1).collect();
        rj("hidden-pair-added", format!("{j}"), &h.pk, &h.proof, &m, &di, ho, po);
    }
    {
        let mut m = dm.clone();
        let mut di = h.d.clone();
        m.push(rand_bytes(&mut r, 4));
        di.push(l);
        rj("pair-appended", "L".into(), &h.pk, &h.proof, &m, &di, ho, po);
        // mismatching counts
        if rr > 0 {
            rj("msg-count-mismatch", "-1".into(), &h.pk, &h.proof, &dm[..rr - 1].to_vec(), &h.d, ho, po);
            rj("idx-count-mismatch", "-1".into(), &h.pk, &h.proof, &dm, &h.d[..rr - 1].to_vec(), ho, po);
        }
    }
    // one of the two disclosure arguments absent (None) while the other is not empty: the lists differ in length, so the
    // statement is not the one the proof was made for, whatever the proof discloses (wave-9 seed: Option::zip of the two)
    if let Ok(p) = Pok::<X>::from_bytes(&h.proof) {
        let forged = vec![b"role: admin".to_vec(), rand_bytes(&mut r, 32)];
        let mut probes: Vec<(&str, Option<Vec<Vec<u8>>>, Option<Vec<usize>>)> = vec![
            ("forged-msgs/None", Some(forged[..1].to_vec()), None),
            ("forged-2-msgs/None", Some(forged.clone()), None),
            ("None/index-0", None, Some(vec![0])),
            ("Some-empty/index-0", Some(vec![]), Some(vec![0])),
            ("forged-msgs/Some-empty", Some(forged[..1].to_vec()), Some(vec![])),
        ];
        if rr > 0 {
            probes.push(("true-msgs/None", Some(dm.clone()), None));
            probes.push(("None/true-indexes", None, Some(h.d.clone())));
            probes.push(("None/None", None, None));
            probes.push(("Some-empty/None", Some(vec![]), None));
            probes.push(("None/Some-empty", None, Some(vec![])));
        }
        for (tag, m, di) in probes {
            let case = format!("{}/one-disclosure-argument-absent/{}", base, tag);
            ctx.distinct(&case);
            let v = ctx.call("proof_verify", &case, None, || p.proof_verify(&h.pk, m.as_deref(), di.as_deref(), ho, po));
            if v.outcome.is_ok() {
                ctx.violation(
                    "C04:accepted/one-disclosure-argument-absent",
                    json!({"case":case,"pk":hx_full(&h.pk.to_bytes()),"proof":hx_full(&h.proof),
                           "disclosed_messages":m.as_ref().map(|m| msgs_json(m)),"disclosed_indexes":di,"honest_disclosed":h.d,"L":l,
                           "header":ho.map(hx),"ph":po.map(hx)}),
                );
            }
        }
    }
    // header / ph edits (octet-string inequality; None == empty)
    for (which, cur) in [("header", h.hdr.octets().to_vec()), ("ph", h.ph.octets().to_vec())] {
        let mut alts: Vec<Vec<u8>> = vec![];
        if !cur.is_empty() {
            let mut x = cur.clone();
            x[0] ^= 0x80;
            alts.push(x);
            alts.push(cur[..cur.len() - 1].to_vec());
            alts.push(vec![]);
        } else {
            alts.push(vec![0]);
            alts.push(rand_bytes(&mut r, 16));
        }
        let mut x = cur.clone();
        x.push(0);
        alts.push(x);
        for (n, a) in alts.iter().enumerate() {
            if which == "header" {
                rj("header-edited", format!("{n}"), &h.pk, &h.proof, &dm, &h.d, Some(a), po);
            } else {
                rj("ph-edited", format!("{n}"), &h.pk, &h.proof, &dm, &h.d, ho, Some(a));
            }
        }
    }
    // header and ph exchanged
    if h.hdr.octets() != h.ph.octets() {
        rj("header-ph-exchanged", "-".into(), &h.pk, &h.proof, &dm, &h.d, Some(h.ph.octets()), Some(h.hdr.octets()));
    }
    // other keys
    let (_, pk2) = keypair::<X>(&mut r);
    rj("pk-other", "-".into(), &pk2, &h.proof, &dm, &h.d, ho, po);
    rj("pk-negated", "-".into(), &BBSplusPublicKey(-h.pk.0), &h.proof, &dm, &h.d, ho, po);
    rj("pk-identity", "-".into(), &BBSplusPublicKey(G2Projective::IDENTITY), &h.proof, &dm, &h.d, ho, po);
    rj("pk-generator", "-".into(), &BBSplusPublicKey(G2Projective::GENERATOR), &h.proof, &dm, &h.d, ho, po);
    // proof bit flips
    let nbits = h.proof.len() * 8;
    let flips: Vec<usize> = if all_flips { (0..nbits).collect() } else { (0..48).map(|_| rand_range(&mut r, nbits)).collect() };
    for b in flips {
        let mut p = h.proof.clone();
        p[b / 8] ^= 1 << (b % 8);
        rj("proof-bitflip", format!("{b}"), &h.pk, &p, &dm, &h.d, ho, po);
    }
    if all_flips {
        ctx.count("proofs_with_all_bit_flips", 1);
    }
    // truncation / extension by whole scalars
    for k in 1..=3usize {
        if h.proof.len() >= 272 + 32 * k {
            rj("proof-truncated", format!("{k}"), &h.pk, &h.proof[..h.proof.len() - 32 * k], &dm, &h.d, ho, po);
            // drop k m^ values but keep the challenge
            let mut p = h.proof[..h.proof.len() - 32 * (k + 1)].to_vec();
            p.extend_from_slice(&h.proof[h.proof.len() - 32..]);
            rj("proof-mcap-removed", format!("{k}"), &h.pk, &p, &dm, &h.d, ho, po);
        }
        for (fill, name) in [
            (vec![0u8; 32], "zero"),
            (rf::scalar_be(&rand_scalar(&mut r)).to_vec(), "random"),
            (h.proof[h.proof.len() - 32..].to_vec(), "copy"),
            (vec![0xffu8; 32], "noncanonical-ff"),
            (R_BE.to_vec(), "noncanonical-r"),
        ] {
            let mut p = h.proof.clone();
            for _ in 0..k {
                p.extend_from_slice(&fill);
            }
            rj("proof-extended-after", format!("{k}{name}"), &h.pk, &p, &dm, &h.d, ho, po);
            let mut p = h.proof[..h.proof.len() - 32].to_vec();
            for _ in 0..k {
                p.extend_from_slice(&fill);
            }
            p.extend_from_slice(&h.proof[h.proof.len() - 32..]);
            rj("proof-extended-before-challenge", format!("{k}{name}"), &h.pk, &p, &dm, &h.d, ho, po);
        }
    }
    // every whole-scalar truncation (down to the three points), then point-granular ones
    let mut cut = 4 * 32;
    while h.proof.len() > cut && h.proof.len() - cut >= 144 {
        rj("proof-truncated", format!("{}", cut / 32), &h.pk, &h.proof[..h.proof.len() - cut], &dm, &h.d, ho, po);
        cut += 32;
    }
    for keep in [0usize, 48, 96, 144] {
        rj("proof-truncated-to", format!("{keep}"), &h.pk, &h.proof[..keep], &dm, &h.d, ho, po);
    }
    // a non-canonical word inserted at every 32-byte boundary of the scalar part
    for fill in [[0xffu8; 32], R_BE] {
        let mut at = 144;
        while at <= h.proof.len() {
            let mut p = h.proof[..at].to_vec();
            p.extend_from_slice(&fill);
            p.extend_from_slice(&h.proof[at..]);
            rj("proof-noncanonical-word-inserted", format!("{}", (at - 144) / 32), &h.pk, &p, &dm, &h.d, ho, po);
            at += 32;
        }
    }
    // every scalar of the proof re-encoded as its non-canonical alias value + r (another octet string for the same proof)
    {
        let mut at = 144;
        while at + 32 <= h.proof.len() {
            if let Some(a) = alias_plus_r(&h.proof[at..at + 32]) {
                let mut p = h.proof.clone();
                p[at..at + 32].copy_from_slice(&a);
                rj("proof-scalar-plus-r", format!("{}", (at - 144) / 32), &h.pk, &p, &dm, &h.d, ho, po);
            }
            at += 32;
        }
    }
    // extension by a partial scalar: 1..31 stray octets (and 33) after the proof
    for (k, b) in [(1usize, 0u8), (1, 0xff), (7, 0x55), (16, 0), (31, 0), (31, 0xff), (33, 1)] {
        let mut p = h.proof.clone();
        p.extend(std::iter::repeat(b).take(k));
        rj("proof-extended-bytes", format!("{k}x{b:02x}"), &h.pk, &p, &dm, &h.d, ho, po);
    }
    // truncation by non-scalar amounts
    for cut in [1usize, 31, 33] {
        if h.proof.len() > 272 + cut {
            rj("proof-truncated-bytes", format!("{cut}"), &h.pk, &h.proof[..h.proof.len() - cut], &dm, &h.d, ho, po);
        }
    }
    ctx.sample(json!({"workload":"A","honest":{"suite":name::<X>(),"L":l,"disclosed":h.d,"proof_len":h.proof.len()},"all_bit_flips":all_flips}));
}

/// the group order r, big endian: the smallest non-canonical scalar encoding
pub const R_BE: [u8; 32] = [
    0x73, 0xed, 0xa7, 0x53, 0x29, 0x9d, 0x7d, 0x48, 0x33, 0x39, 0xd8, 0x08, 0x09, 0xa1, 0xd8, 0x05, 0x53, 0xbd, 0xa4, 0x02, 0xff, 0xfe, 0x5b, 0xfe, 0xff, 0xff, 0xff, 0xff, 0x00, 0x00, 0x00, 0x01,
];

/// the non-canonical alias value + r of a 32-octet big-endian scalar (None if it does not fit in 32 octets)
pub fn alias_plus_r(x: &[u8]) -> Option<Vec<u8>> {
    let mut out = vec![0u8; 32];
    let mut carry = 0u16;
    for k in (0..32).rev() {
        let s = x[k] as u16 + R_BE[k] as u16 + carry;
        out[k] = s as u8;
        carry = s >> 8;
    }
    if carry == 0 { Some(out) } else { None }
}

// ---------------------------------------------------------------- workload B: forgeries

/// Flat statement the adversary wants to have accepted.
pub struct Stmt {
    pub s: SuiteId,
    pub api: Vec<u8>,
    pub gens: Vec<G1Projective>,
    pub pk: G2Projective,
    pub header: Vec<u8>,
    pub ph: Vec<u8>,
    pub disclosed: Vec<(usize, Scalar)>,
    pub u: usize,
}

impl Stmt {
    fn domain(&self) -> Scalar {
        rf::calculate_domain(self.s, &self.pk, &self.gens[0], &self.gens[1..], &self.header, &self.api).unwrap()
    }
    fn bv(&self) -> G1Projective {
        let mut bv = self.s.p1() + self.gens[0] * self.domain();
        for (i, m) in &self.disclosed {
            bv += self.gens[1 + i] * m;
        }
        bv
    }
    fn undisclosed(&self) -> Vec<usize> {
        let l = self.u + self.disclosed.len();
        (0..l).filter(|i| !self.disclosed.iter().any(|(j, _)| j == i)).collect()
    }
    fn chal(&self, abar: &G1Projective, bbar: &G1Projective, d: &G1Projective, t1: &G1Projective, t2: &G1Projective) -> Scalar {
        rf::challenge(self.s, &self.disclosed, abar, bbar, d, t1, t2, &self.domain(), &self.ph, &self.api).unwrap()
    }
}

/// r * (h / 3) for the G1 cofactor h: multiplying any curve point by it lands in the 3-torsion
const R_TIMES_H_DIV_3: &str = "08ab05f8bdd54cde190937e76bc3e447cc27c3d6fbd7063fcd104635a790520c0a395554e5c6aaaad955555555558e39";

/// k * P for any point of the curve (also outside the prime-order subgroup), k big-endian
fn mul_be(p: &G1Projective, k_be: &[u8]) -> G1Projective {
    let mut acc = G1Projective::IDENTITY;
    for byte in k_be {
        for bit in (0..8).rev() {
            acc = acc.double();
            if byte >> bit & 1 == 1 {
                acc += p;
            }
        }
    }
    acc
}

/// a point of order 3 on E(Fp): outside G1, not the identity, e(T, Q) = 1 for every Q
pub fn order3_point(r: &mut impl RngCore) -> Option<G1Projective> {
    use bls12_381_plus::G1Affine;
    let k = hex::decode(R_TIMES_H_DIV_3).unwrap();
    for _ in 0..200 {
        let mut b = rand_bytes(r, 48);
        b[0] = 0x80 | (b[0] & 0x3f) % 0x1a | (b[0] & 0x20);
        let a: [u8; 48] = b.try_into().unwrap();
        if let Some(p) = Option::<G1Affine>::from(G1Affine::from_compressed_unchecked(&a)) {
            let t = mul_be(&G1Projective::from(p), &k);
            if !bool::from(t.is_identity()) {
                return Some(t);
            }
        }
    }
    None
}

fn mod3(s: &Scalar) -> u8 {
    s.to_be_bytes().iter().fold(0u32, |acc, b| (acc * 256 + *b as u32) % 3) as u8
}

pub const FAMILIES: &[&str] = &[
    "identity-AbarBbar/D=Bv",
    "identity-AbarBbar/D=kBv",
    "identity-all/one-shot",
    "identity-D/guess",
    "Abar=Bbar=P1",
    "Abar=G/Bbar=G",
    "Abar=-Bbar",
    "identity-Abar-only",
    "identity-Bbar-only",
    "small-order-AbarBbar",
];

/// Build a forged proof from public data only.
pub fn forge(st: &Stmt, family: &str, r: &mut impl RngCore) -> rf::Proof {
    let o = G1Projective::IDENTITY;
    let bv = st.bv();
    let und = st.undisclosed();
    let e_cap = rand_scalar(r);
    let r1_cap = rand_scalar(r);
    let m_cap: Vec<Scalar> = (0..st.u).map(|_| rand_scalar(r)).collect();
    let sum_m = |mc: &[Scalar]| {
        let mut t = o;
        for (k, &j) in und.iter().enumerate() {
            t += st.gens[1 + j] * mc[k];
        }
        t
    };
    if family == "small-order-AbarBbar" {
        // Abar, Bbar of order 3 (outside the prime-order subgroup): the pairing check holds for every key;
        // Bbar*c only depends on c mod 3, which is guessed; T2 is made independent of c as before
        if let Some(t) = order3_point(r) {
            for attempt in 0..60u64 {
                let k = rand_scalar(r);
                let d = bv * k;
                let r1_cap = rand_scalar(r);
                let e_cap = rand_scalar(r);
                let abar = t;
                let bbar = if attempt % 2 == 0 { t } else { t.double() };
                let guess = Scalar::from(attempt % 3);
                let t1 = bbar * guess + abar * e_cap + d * r1_cap;
                let t2 = sum_m(&m_cap);
                let c = st.chal(&abar, &bbar, &d, &t1, &t2);
                if mod3(&c) as u64 == attempt % 3 {
                    return rf::Proof { Abar: abar, Bbar: bbar, D: d, e_cap, r1_cap, r3_cap: -c * k.invert().unwrap(), m_cap, c };
                }
            }
        }
        // could not build it: fall back to a harmless member of another family
        return forge(st, "Abar=G/Bbar=G", r);
    }
    match family {
        // T1 = D*r1^ ; T2 = sum H_j m^_j   (both independent of c) ; r3^ = -c/k
        "identity-AbarBbar/D=Bv" | "identity-AbarBbar/D=kBv" => {
            let k = if family.ends_with("kBv") { rand_scalar(r) } else { Scalar::ONE };
            let d = bv * k;
            let t1 = d * r1_cap;
            let t2 = sum_m(&m_cap);
            let c = st.chal(&o, &o, &d, &t1, &t2);
            rf::Proof { Abar: o, Bbar: o, D: d, e_cap, r1_cap, r3_cap: -c * k.invert().unwrap(), m_cap, c }
        }
        _ => {
            // one-shot guesses: fix (Abar, Bbar, D), compute T1/T2 with a guessed challenge, hash once
            let p1 = st.s.p1();
            let g = G1Projective::GENERATOR;
            let x = g * rand_scalar(r);
            let (abar, bbar, d) = match family {
                "identity-all/one-shot" => (o, o, o),
                "identity-D/guess" => (x, x * rand_scalar(r), o),
                "Abar=Bbar=P1" => (p1, p1, bv),
                "Abar=G/Bbar=G" => (g, g, bv),
                "Abar=-Bbar" => (x, -x, bv),
                "identity-Abar-only" => (o, x, bv),
                "identity-Bbar-only" => (x, o, bv),
                _ => unreachable!(),
            };
            let c0 = rand_scalar(r);
            let r3_cap = -c0;
            let t1 = bbar * c0 + abar * e_cap + d * r1_cap;
            let t2 = bv * c0 + d * r3_cap + sum_m(&m_cap);
            let c = st.chal(&abar, &bbar, &d, &t1, &t2);
            rf::Proof { Abar: abar, Bbar: bbar, D: d, e_cap, r1_cap, r3_cap: -c, m_cap, c }
        }
    }
}

/// serde_json shape of a proof, taken from an honest proof and overwritten field by field.
pub fn proof_json(template: &Value, p: &rf::Proof) -> Value {
    let mut v = template.clone();
    let inner = v.get_mut("BBSplus").unwrap();
    let point = |p: &G1Projective| serde_json::to_value(p).unwrap();
    let sc = |s: &Scalar| serde_json::to_value(s).unwrap();
    inner["Abar"] = point(&p.Abar);
    inner["Bbar"] = point(&p.Bbar);
    inner["D"] = point(&p.D);
    inner["e_cap"] = sc(&p.e_cap);
    inner["r1_cap"] = sc(&p.r1_cap);
    inner["r3_cap"] = sc(&p.r3_cap);
    inner["m_cap"] = Value::Array(p.m_cap.iter().map(sc).collect());
    inner["challenge"] = sc(&p.c);
    v
}

fn forgeries<X: Sx>(ctx: &Ctx, idx: u64, u: usize, rcount: usize) {
    let mut r = ctx.rng("c04b", idx);
    // a key the harness never signs with (the forger does not even need the secret key)
    let (_, victim_pk) = key_from_scalar(rand_scalar(&mut r));
    let l = u + rcount;
    // claimed messages and positions of the adversary's choice
    let mut pos: Vec<usize> = (0..l).collect();
    for i in (1..l).rev() {
        let j = rand_range(&mut r, i + 1);
        pos.swap(i, j);
    }
    let mut di: Vec<usize> = pos[..rcount].to_vec();
    di.sort();
    let dm: Vec<Vec<u8>> = (0..rcount).map(|k| format!("forged claim #{k}: admin=true").into_bytes()).collect();
    let header = Hdr::gen(&mut r, &[12]);
    let ph = Hdr::gen(&mut r, &[12]);
    // template for the serde path
    let template = {
        let (sk, pk) = keypair::<X>(&mut r);
        let m = vec![b"x".to_vec()];
        let s = Sig::<X>::sign(Some(&m), &sk, &pk, None).unwrap();
        serde_json::to_value(Pok::<X>::proof_gen(&pk, &s.to_bytes(), None, None, Some(&m), None).unwrap()).unwrap()
    };
    // ---- plain interface
    {
        let api = X::ID.api_id();
        let st = Stmt {
            s: X::ID,
            gens: rf::create_generators(X::ID, l + 1, &api),
            pk: victim_pk.0,
            header: header.octets().to_vec(),
            ph: ph.octets().to_vec(),
            disclosed: di.iter().copied().zip(rf::messages_to_scalars(X::ID, &dm, &api).unwrap()).collect(),
            u,
            api,
        };
        for fam in FAMILIES {
            let p = forge(&st, fam, &mut r);
            let case = format!("{}/forgery/{}/U{}/R{}/octets", name::<X>(), fam, u, rcount);
            must_reject::<X>(ctx, &format!("forgery/{fam}"), &case, &victim_pk, &p.to_bytes(), &dm, &di, header.as_opt(), ph.as_opt(), json!({"family":fam,"via":"octets"}));
            // through serde
            let case = format!("{}/forgery/{}/U{}/R{}/serde", name::<X>(), fam, u, rcount);
            ctx.distinct(&case);
            let j = proof_json(&template, &p);
            let dec = ctx.call("serde_from_value", &case, None, || serde_json::from_value::<Pok<X>>(j.clone()));
            if let Some(pp) = dec.value {
                let v = ctx.call("proof_verify", &case, None, || pp.proof_verify(&victim_pk, Some(&dm), Some(&di), header.as_opt(), ph.as_opt()));
                if v.outcome.is_ok() {
                    ctx.violation(&format!("C04:accepted/forgery/{fam}"), json!({"case":case,"via":"serde","pk":hx_full(&victim_pk.to_bytes()),"proof_json":j,"claimed_messages":msgs_json(&dm),"claimed_indexes":di}));
                }
            }
        }
    }
    // ---- blind interface: every split of the positions into signer part / blind slot / committed part
    for ls in 0..l {
        let m = l - 1 - ls;
        // disclosed flat positions must avoid the blind-factor slot `ls`
        if di.contains(&ls) {
            continue;
        }
        let api = X::ID.blind_api_id();
        let mut gens = rf::create_generators(X::ID, ls + 1, &api);
        gens.extend(rf::blind_generators(X::ID, m + 1));
        let st = Stmt {
            s: X::ID,
            gens,
            pk: victim_pk.0,
            header: header.octets().to_vec(),
            ph: ph.octets().to_vec(),
            disclosed: di.iter().copied().zip(rf::messages_to_scalars(X::ID, &dm, &api).unwrap()).collect(),
            u,
            api,
        };
        let (mut si, mut sm, mut ci, mut cm) = (vec![], vec![], vec![], vec![]);
        for (k, &i) in di.iter().enumerate() {
            if i < ls {
                si.push(i);
                sm.push(dm[k].clone());
            } else {
                ci.push(i - ls - 1);
                cm.push(dm[k].clone());
            }
        }
        for fam in FAMILIES[..3].iter().chain(&FAMILIES[9..]) {
            let p = forge(&st, fam, &mut r);
            let case = format!("{}/blind-forgery/{}/U{}/R{}/Ls{}", name::<X>(), fam, u, rcount, ls);
            ctx.distinct(&case);
            let pb = p.to_bytes();
            let dec = ctx.call("from_bytes", &case, None, || Pok::<X>::from_bytes(&pb));
            let j = proof_json(&template, &p);
            let dec2 = ctx.call("serde_from_value", &case, None, || serde_json::from_value::<Pok<X>>(j.clone()));
            for pp in dec.value.into_iter().chain(dec2.value) {
                let v = ctx.call("blind_proof_verify", &case, None, || {
                    pp.blind_proof_verify(&victim_pk, header.as_opt(), ph.as_opt(), Some(ls), Some(&sm), Some(&cm), Some(&si), Some(&ci))
                });
                if v.outcome.is_ok() {
                    ctx.violation(&format!("C04:accepted/blind-forgery/{fam}"), json!({"case":case,"pk":hx_full(&victim_pk.to_bytes()),"proof":hx_full(&pb),"L":ls,"signer":si,"committed":ci}));
                }
            }
        }
    }
    ctx.sample(json!({"workload":"B","suite":name::<X>(),"U":u,"R":rcount,"claimed_indexes":di,"claimed_messages":msgs_json(&dm),"families":FAMILIES}));
}

/// identity injected into single positions / pairs of positions of an otherwise honest proof
fn identity_injection<X: Sx>(ctx: &Ctx, idx: u64) {
    let mut r = ctx.rng("c04c", idx);
    let (sk, pk) = keypair::<X>(&mut r);
    let l = 3;
    let msgs = gen_messages(&mut r, l, 0);
    let d = vec![1usize];
    let sig = Sig::<X>::sign(Some(&msgs), &sk, &pk, None).unwrap();
    let proof = Pok::<X>::proof_gen(&pk, &sig.to_bytes(), None, None, Some(&msgs), Some(&d)).unwrap();
    let dm = vec![msgs[1].clone()];
    let pb = proof.to_bytes();
    let mut inf = [0u8; 48];
    inf[0] = 0xc0;
    for maskbits in 1..8u8 {
        let mut p = pb.clone();
        for k in 0..3 {
            if maskbits >> k & 1 == 1 {
                p[48 * k..48 * (k + 1)].copy_from_slice(&inf);
            }
        }
        let case = format!("{}/identity-injected/mask{}", name::<X>(), maskbits);
        must_reject::<X>(ctx, "identity-injected", &case, &pk, &p, &dm, &d, None, None, json!({"mask":maskbits}));
    }
}

pub fn scenarios(ctx: &Ctx) -> Vec<Scenario> {
    let mut v = Vec::new();
    let mut idx = 0u64;
    // workload A
    let lmax_all = ctx.t(4usize, 5usize);
    let mut flip_budget = ctx.t(2usize, 40usize); // per suite
    for l in 0..=ctx.t(6usize, 8usize) {
        let subsets: Vec<Vec<usize>> = if l <= lmax_all {
            all_subsets(l)
        } else {
            let mut r = ctx.rng("c04-subsets", l as u64);
            (0..ctx.t(4, 12)).map(|_| (0..l).filter(|_| r.next_u32() % 2 == 0).collect()).collect()
        };
        for (k, d) in subsets.into_iter().enumerate() {
            let i = idx;
            idx += 1;
            let all = flip_budget > 0 && l >= 2 && k % 3 == 1;
            if all {
                flip_budget -= 1;
            }
            let (d1, d2) = (d.clone(), d);
            v.push(scenario(format!("A/sha/L{l}/{k}"), move |c| edits::<Sha>(c, i, l, d1, all)));
            v.push(scenario(format!("A/shake/L{l}/{k}"), move |c| edits::<Shake>(c, i, l, d2, all)));
        }
    }
    // workload A on large message counts with disclosed positions deep in the vector
    for (k, (l, d)) in [(70usize, vec![5usize, 64, 69]), (130, vec![0, 127, 128, 129]), (260, vec![255, 256, 259]), (33, vec![32])].into_iter().enumerate() {
        if ctx.quick() && k >= 2 {
            break;
        }
        let i = idx;
        idx += 1;
        let (d1, d2) = (d.clone(), d);
        v.push(scenario(format!("A/sha/L{l}/deep"), move |c| edits::<Sha>(c, i, l, d1, false)));
        v.push(scenario(format!("A/shake/L{l}/deep"), move |c| edits::<Shake>(c, i, l, d2, false)));
    }
    // workload B
    for u in 0..=3usize {
        for rc in 0..=ctx.t(2usize, 4usize) {
            for rep in 0..ctx.t(1, 4) {
                let i = idx + rep;
                v.push(scenario(format!("B/sha/U{u}/R{rc}"), move |c| forgeries::<Sha>(c, i, u, rc)));
                v.push(scenario(format!("B/shake/U{u}/R{rc}"), move |c| forgeries::<Shake>(c, i, u, rc)));
            }
            idx += 10;
        }
    }
    for rep in 0..ctx.t(2, 8) {
        let i = idx + rep;
        v.push(scenario("C/sha/identity-injection", move |c| identity_injection::<Sha>(c, i)));
        v.push(scenario("C/shake/identity-injection", move |c| identity_injection::<Shake>(c, i)));
    }
    v
}

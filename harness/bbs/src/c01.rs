//! C01 — BBS signature completeness: whatever is signed verifies.

use crate::api::*;
use crate::common::*;
use serde_json::json;

fn one<X: Sx>(ctx: &Ctx, idx: u64, l: usize, hdr_class: usize, msg_class: usize, big: usize) {
    let mut r = ctx.rng("c01", idx);
    if l <= 300 {
        history_warmup::<X>(ctx, &mut r, l);
    }
    let Some((sk, pk)) = keypair_monitored::<X>(ctx, &mut r, "C01:keygen-failed-for-valid-key-material") else { return };
    let hdr = match hdr_class % 6 {
        0 => Hdr::Absent,
        1 => Hdr::Empty,
        2 => Hdr::Bytes(rand_bytes(&mut r, 1)),
        3 => Hdr::Bytes(rand_bytes(&mut r, 16)),
        4 => { let n = *pick(&mut r, &[255usize, 256, 257]); Hdr::Bytes(rand_bytes(&mut r, n)) }
        _ => { let n = *pick(&mut r, &[65535usize, 65536]); Hdr::Bytes(rand_bytes(&mut r, n)) }
    };
    let mut msgs = gen_messages(&mut r, l, msg_class);
    if big > 0 && l > 0 {
        let k = rand_range(&mut r, l);
        msgs[k] = rand_bytes(&mut r, big);
    }
    let sig_s = format!("{}/L{}/hdr={}/msg{}/big{}", name::<X>(), l, hdr.class(), msg_class % 6, big);
    ctx.distinct(&sig_s);

    let m_opt: Option<&[Vec<u8>]> = if l == 0 && idx % 2 == 0 { None } else { Some(&msgs) };
    let s = ctx.call("sign", &sig_s, Some(l as u64 + 64), || Sig::<X>::sign(m_opt, &sk, &pk, hdr.as_opt()));
    let Some(sig) = s.value else {
        ctx.violation("C01:sign-failed", json!({"case":sig_s,"outcome":s.outcome.short(),"sk":hx(&sk.to_bytes()),"header":hx(hdr.octets()),"messages":msgs_json(&msgs)}));
        return;
    };
    let bytes = sig.to_bytes();
    let v = ctx.call("verify", &sig_s, Some(l as u64 + 64), || sig.verify(&pk, m_opt, hdr.as_opt()));
    if !v.outcome.is_ok() {
        ctx.violation("C01:verify-failed", json!({"case":sig_s,"outcome":v.outcome.short(),"sk":hx(&sk.to_bytes()),"header":hx(hdr.octets()),"messages":msgs_json(&msgs),"sig":hx(&bytes)}));
    }
    // a verifier with no history in common with the signer (fresh thread): same bytes when signing again, and the
    // signature verifies there
    {
        let (b2, v2) = on_fresh_thread(|| {
            let again = ctx.call("sign", &sig_s, Some(l as u64 + 64), || Sig::<X>::sign(m_opt, &sk, &pk, hdr.as_opt()));
            let dec = Sig::<X>::from_bytes(&bytes);
            let v = dec.ok().map(|d| ctx.call("verify", &sig_s, Some(l as u64 + 64), || d.verify(&pk, m_opt, hdr.as_opt())).outcome);
            (again.value.map(|s| s.to_bytes()), v)
        });
        if b2 != Some(bytes) {
            ctx.violation("C01:signature-depends-on-thread-history", json!({"case":sig_s,"here":hx(&bytes),"fresh_thread":b2.map(|b| hx(&b))}));
        }
        if !matches!(v2, Some(Outcome::Ok)) {
            ctx.violation("C01:verify-on-fresh-thread-failed", json!({"case":sig_s,"outcome":v2.map(|o| o.short()),"sig":hx(&bytes)}));
        }
    }
    // 80-byte encoding round trip
    let d = ctx.call("from_bytes", &sig_s, None, || Sig::<X>::from_bytes(&bytes));
    match d.value {
        Some(sig2) => {
            if sig2 != sig || sig2.to_bytes() != bytes {
                ctx.violation("C01:roundtrip-differs", json!({"case":sig_s,"sig":hx(&bytes)}));
            }
            let v2 = ctx.call("verify", &sig_s, Some(l as u64 + 64), || sig2.verify(&pk, m_opt, hdr.as_opt()));
            if !v2.outcome.is_ok() {
                ctx.violation("C01:verify-after-roundtrip-failed", json!({"case":sig_s,"outcome":v2.outcome.short(),"sig":hx(&bytes)}));
            }
        }
        None => ctx.violation("C01:decode-failed", json!({"case":sig_s,"outcome":d.outcome.short(),"sig":hx(&bytes)})),
    }
    // absent == empty (messages and header)
    if l == 0 {
        let a = ctx.call("sign", &sig_s, Some(l as u64 + 64), || Sig::<X>::sign(None, &sk, &pk, hdr.as_opt()));
        let b = ctx.call("sign", &sig_s, Some(l as u64 + 64), || Sig::<X>::sign(Some(&[]), &sk, &pk, hdr.as_opt()));
        match (a.value, b.value) {
            (Some(a), Some(b)) if a.to_bytes() == b.to_bytes() && a.to_bytes() == bytes => {
                for mo in [None, Some(&[][..])] {
                    let v = ctx.call("verify", &sig_s, Some(l as u64 + 64), || a.verify(&pk, mo, hdr.as_opt()));
                    if !v.outcome.is_ok() {
                        ctx.violation("C01:none-vs-empty-messages", json!({"case":sig_s,"what":"verify"}));
                    }
                }
            }
            _ => ctx.violation("C01:none-vs-empty-messages", json!({"case":sig_s,"what":"sign"})),
        }
    }
    if matches!(hdr, Hdr::Absent | Hdr::Empty) {
        for h in [None, Some(&[][..])] {
            let a = ctx.call("sign", &sig_s, Some(l as u64 + 64), || Sig::<X>::sign(m_opt, &sk, &pk, h));
            if a.value.map(|a| a.to_bytes()) != Some(bytes) {
                ctx.violation("C01:none-vs-empty-header", json!({"case":sig_s,"what":"sign"}));
            }
            let v = ctx.call("verify", &sig_s, Some(l as u64 + 64), || sig.verify(&pk, m_opt, h));
            if !v.outcome.is_ok() {
                ctx.violation("C01:none-vs-empty-header", json!({"case":sig_s,"what":"verify"}));
            }
        }
    }
    ctx.sample(json!({"case":sig_s,"sk":hx(&sk.to_bytes()),"header":hx(hdr.octets()),"n_messages":l,"signature":hx(&bytes),"verify":"Ok"}));
}

/// volume: thousands of distinct signatures through the 80-byte codec. Value shapes that occur once in a few hundred
/// signatures (a zero byte at a given offset, bytes that cancel, a high bit pattern) are not reached by the per-case
/// scenarios above.
fn volume<X: Sx>(ctx: &Ctx, idx: u64, n: usize) {
    let mut r = ctx.rng("c01v", idx);
    let (sk, pk) = keypair::<X>(&mut r);
    let msgs = gen_messages(&mut r, 2, 0);
    let case = format!("{}/volume", name::<X>());
    let mut byte_values_seen = [[false; 256]; 80];
    for k in 0..n {
        let hdr = (k as u64).to_be_bytes();
        let Some(sig) = ctx.call("sign", &case, None, || Sig::<X>::sign(Some(&msgs), &sk, &pk, Some(&hdr))).value else {
            ctx.violation("C01:sign-failed", json!({"case":case,"k":k}));
            continue;
        };
        let bytes = sig.to_bytes();
        for (i, b) in bytes.iter().enumerate() {
            byte_values_seen[i][*b as usize] = true;
        }
        match ctx.call("from_bytes", &case, None, || Sig::<X>::from_bytes(&bytes)).value {
            Some(s2) if s2 == sig && s2.to_bytes() == bytes => {
                // the pairing check is the expensive part: every 8th decoded signature is verified as well
                if k % 8 == 0 {
                    let v = ctx.call("verify", &case, None, || s2.verify(&pk, Some(&msgs), Some(&hdr)));
                    if !v.outcome.is_ok() {
                        ctx.violation("C01:verify-after-roundtrip-failed", json!({"case":case,"sig":hx_full(&bytes),"sk":hx(&sk.to_bytes()),"header":hx(&hdr)}));
                    }
                }
            }
            Some(_) => ctx.violation("C01:roundtrip-differs", json!({"case":case,"sig":hx_full(&bytes)})),
            None => ctx.violation("C01:decode-failed", json!({"case":case,"sig":hx_full(&bytes),"sk":hx(&sk.to_bytes()),"header":hx(&hdr),"messages":msgs_json(&msgs)})),
        }
        ctx.count("volume_signatures_roundtripped", 1);
    }
    let covered: usize = byte_values_seen[48..].iter().map(|row| row.iter().filter(|x| **x).count()).sum();
    ctx.count("volume_distinct_(offset,byte)_pairs_in_e", covered as u64);
    ctx.distinct(&case);
}

pub fn scenarios(ctx: &Ctx) -> Vec<Scenario> {
    let mut v = Vec::new();
    let nvol = ctx.t(500usize, 4000usize);
    for i in 0..4u64 {
        v.push(scenario(format!("sha/volume{i}"), move |c| volume::<Sha>(c, i, nvol)));
        v.push(scenario(format!("shake/volume{i}"), move |c| volume::<Shake>(c, i, nvol)));
    }
    let mut idx = 0u64;
    let mut push = |v: &mut Vec<Scenario>, l: usize, h: usize, m: usize, big: usize| {
        let i = idx;
        idx += 1;
        v.push(scenario(format!("sha/L{l}/h{h}/m{m}"), move |c| one::<Sha>(c, i, l, h, m, big)));
        v.push(scenario(format!("shake/L{l}/h{h}/m{m}"), move |c| one::<Shake>(c, i, l, h, m, big)));
    };
    // full cross for small L
    for l in 0..=3usize {
        for h in 0..6 {
            for m in 0..6 {
                if l == 0 && m > 0 {
                    continue;
                }
                push(&mut v, l, h, m, 0);
            }
        }
    }
    let lcls: &[usize] = if ctx.quick() {
        &[5, 10, 16, 31, 32, 33, 64, 100, 255, 256, 257]
    } else {
        &[4, 5, 6, 7, 8, 10, 16, 31, 32, 33, 63, 64, 65, 100, 127, 128, 129, 255, 256, 257, 511, 512, 513, 1000, 2047]
    };
    let reps = ctx.t(2, 8);
    for (k, &l) in lcls.iter().enumerate() {
        for rep in 0..reps {
            push(&mut v, l, k + rep, k + 2 * rep + 1, 0);
        }
    }
    // thousands of messages, very long messages
    push(&mut v, 1000, 3, 0, 0);
    push(&mut v, 2, 0, 0, ctx.t(65536, 1 << 20));
    push(&mut v, 1, 1, 0, ctx.t(100_000, 4 << 20));
    if !ctx.quick() {
        push(&mut v, 4096, 2, 3, 0);
    }
    v
}

//! C05 — Blind BBS issuance and presentation completeness.

use crate::api::*;
use crate::common::*;
use serde_json::json;

#[derive(Clone, Copy, Debug, PartialEq)]
enum Mode {
    Commit,      // commit(Some(cm))
    CommitNone,  // commit(None): M = 0 with a blind factor
    NoCommitment // blind_sign without any commitment
}

fn one<X: Sx>(ctx: &Ctx, idx: u64, l: usize, m: usize, mode: Mode, exhaustive: bool) {
    let mut r = ctx.rng("c05", idx);
    if l + m <= 300 {
        history_warmup::<X>(ctx, &mut r, l + m);
    }
    let (sk, pk) = keypair::<X>(&mut r);
    let msgs = gen_messages(&mut r, l, idx as usize);
    let cm = gen_messages(&mut r, m, idx as usize + 3);
    let hdr = Hdr::gen(&mut r, &[1, 16, 300]);
    let base = format!("{}/L{}/M{}/{:?}/hdr={}", name::<X>(), l, m, mode, hdr.class());
    let detail = |what: &str, out: &Outcome| json!({"case":base,"what":what,"outcome":out.short(),"sk":hx(&sk.to_bytes()),"header":hx(hdr.octets()),"messages":msgs_json(&msgs),"committed":msgs_json(&cm)});
    let m_opt: Option<&[Vec<u8>]> = if l == 0 && idx % 2 == 0 { None } else { Some(&msgs) };
    let cm_opt: Option<&[Vec<u8>]> = if m == 0 && (idx % 2 == 0 || mode != Mode::Commit) { None } else { Some(&cm) };

    let (cwp, blind): (Option<Vec<u8>>, Option<BlindFactor>) = match mode {
        Mode::NoCommitment => (None, None),
        _ => {
            let c = ctx.call("commit", &base, None, || Com::<X>::commit(if mode == Mode::CommitNone { None } else { cm_opt }));
            if c.draws.len() != m + 2 && c.outcome.is_ok() {
                ctx.violation("C05:unexpected-rng-draw-count/commit", json!({"draws":c.draws.len(),"expected":m+2,"case":base}));
            }
            let Some((com, bf)) = c.value else {
                ctx.violation("C05:commit-failed", detail("commit", &c.outcome));
                return;
            };
            let b = com.to_bytes();
            if b.len() != 48 + 32 * (m + 2) {
                ctx.violation("C05:commitment-length", json!({"len":b.len(),"case":base}));
            }
            (Some(b), Some(bf))
        }
    };
    // "no commitment" may be spelled None or as the empty octet string
    let empty: Vec<u8> = vec![];
    let cwp_arg: Option<&[u8]> = if mode == Mode::NoCommitment && idx % 2 == 1 { Some(&empty) } else { cwp.as_deref() };
    let s = ctx.call("blind_sign", &base, None, || BSig::<X>::blind_sign(&sk, &pk, cwp_arg, hdr.as_opt(), m_opt));
    let Some(bsig) = s.value else {
        ctx.violation("C05:blind_sign-failed", detail("blind_sign", &s.outcome));
        return;
    };
    ctx.distinct(&base);
    let v = ctx.call("verify_blind_sign", &base, None, || bsig.verify_blind_sign(&pk, hdr.as_opt(), m_opt, cm_opt, blind.as_ref()));
    if !v.outcome.is_ok() {
        ctx.violation("C05:verify_blind_sign-failed", detail("verify_blind_sign", &v.outcome));
    }
    let sb = bsig.to_bytes();
    match ctx.call("from_bytes", &base, None, || BSig::<X>::from_bytes(&sb)).value {
        Some(b2) => {
            let v = ctx.call("verify_blind_sign", &base, None, || b2.verify_blind_sign(&pk, hdr.as_opt(), m_opt, cm_opt, blind.as_ref()));
            if !v.outcome.is_ok() || b2 != bsig {
                ctx.violation("C05:verify_blind_sign-after-roundtrip-failed", detail("roundtrip", &v.outcome));
            }
        }
        None => ctx.violation("C05:blind-signature-decode-failed", json!({"case":base})),
    }
    {
        let vo = on_fresh_thread(|| {
            BSig::<X>::from_bytes(&sb).ok().map(|b2| ctx.call("verify_blind_sign", &base, None, || b2.verify_blind_sign(&pk, hdr.as_opt(), m_opt, cm_opt, blind.as_ref())).outcome)
        });
        if !matches!(vo, Some(Outcome::Ok)) {
            ctx.violation("C05:verify_blind_sign-on-fresh-thread-failed", json!({"case":base,"outcome":vo.map(|o| o.short())}));
        }
    }
    // presentations
    let pairs: Vec<(Vec<usize>, Vec<usize>)> = if exhaustive {
        all_subsets(l).into_iter().flat_map(|d| all_subsets(m).into_iter().map(move |c| (d.clone(), c))).collect()
    } else {
        let mut v = vec![(vec![], vec![]), ((0..l).collect(), (0..m).collect()), ((0..l).collect(), vec![]), (vec![], (0..m).collect())];
        for _ in 0..ctx.t(4, 12) {
            use rand::RngCore;
            v.push(((0..l).filter(|_| r.next_u32() % 2 == 0).collect(), (0..m).filter(|_| r.next_u32() % 2 == 0).collect()));
        }
        v
    };
    for (k, (d, c)) in pairs.iter().enumerate() {
        let ph = match k % 3 {
            0 => Hdr::Absent,
            1 => Hdr::Empty,
            _ => Hdr::Bytes(rand_bytes(&mut r, 24)),
        };
        let case = format!("{}/D={:?}/C={:?}/ph={}", base, if l <= 8 { d.clone() } else { vec![d.len()] }, if m <= 8 { c.clone() } else { vec![c.len()] }, ph.class());
        ctx.distinct(&case);
        let d_opt: Option<&[usize]> = if d.is_empty() && k % 2 == 0 { None } else { Some(d) };
        let c_opt: Option<&[usize]> = if c.is_empty() && k % 2 == 0 { None } else { Some(c) };
        let g = ctx.call("blind_proof_gen", &case, None, || {
            Pok::<X>::blind_proof_gen(&pk, &sb, hdr.as_opt(), ph.as_opt(), m_opt, cm_opt, d_opt, c_opt, blind.as_ref())
        });
        let Some(proof) = g.value else {
            ctx.violation("C05:blind_proof_gen-failed", json!({"case":case,"outcome":g.outcome.short(),"d":detail("blind_proof_gen", &g.outcome)}));
            continue;
        };
        let u = l + 1 + m - d.len() - c.len();
        if g.draws.len() != 5 + u {
            ctx.violation("C05:unexpected-rng-draw-count/proof", json!({"draws":g.draws.len(),"expected":5+u,"case":case}));
        }
        let pb = proof.to_bytes();
        if pb.len() != 272 + 32 * u {
            ctx.violation("C05:proof-length", json!({"len":pb.len(),"expected":272+32*u,"case":case}));
        }
        let dm: Vec<Vec<u8>> = d.iter().map(|&i| msgs[i].clone()).collect();
        let dcm: Vec<Vec<u8>> = c.iter().map(|&j| cm[j].clone()).collect();
        let l_opt = if l == 0 && k % 2 == 0 { None } else { Some(l) };
        for via_bytes in [false, true] {
            let p = if via_bytes {
                match ctx.call("from_bytes", &case, None, || Pok::<X>::from_bytes(&pb)).value {
                    Some(p) => p,
                    None => {
                        ctx.violation("C05:blind-proof-decode-failed", json!({"case":case,"proof":hx_full(&pb)}));
                        continue;
                    }
                }
            } else {
                proof.clone()
            };
            let v = ctx.call("blind_proof_verify", &case, None, || {
                p.blind_proof_verify(&pk, hdr.as_opt(), ph.as_opt(), l_opt, Some(&dm), Some(&dcm), d_opt, c_opt)
            });
            if !v.outcome.is_ok() {
                ctx.violation("C05:honest-blind-proof-rejected", json!({"case":case,"via_bytes":via_bytes,"outcome":v.outcome.short(),"proof":hx_full(&pb),"d":detail("blind_proof_verify", &v.outcome)}));
            }
        }
        if k == 1 {
            ctx.sample(json!({"case":case,"proof_len":pb.len(),"rng_draws":g.draws.len(),"verify":"Ok"}));
        }
    }
}

pub fn scenarios(ctx: &Ctx) -> Vec<Scenario> {
    let mut v = Vec::new();
    let mut idx = 0u64;
    let mut push = |v: &mut Vec<Scenario>, l: usize, m: usize, mode: Mode, ex: bool| {
        let i = idx;
        idx += 1;
        v.push(scenario(format!("sha/L{l}/M{m}/{mode:?}"), move |c| one::<Sha>(c, i, l, m, mode, ex)));
        v.push(scenario(format!("shake/L{l}/M{m}/{mode:?}"), move |c| one::<Shake>(c, i, l, m, mode, ex)));
    };
    let big: &[(usize, usize)] = ctx.t(&[(0, 5), (10, 0), (10, 5), (1, 17), (33, 2), (40, 24), (2, 70), (170, 1), (1, 130), (63, 0), (64, 0), (30, 33), (31, 0), (62, 0), (65, 1), (126, 0), (127, 0), (3, 127), (5, 128), (255, 0)][..], &[(0, 5), (10, 0), (10, 5), (1, 17), (33, 2), (40, 24), (2, 70), (170, 1), (1, 130), (63, 0), (64, 0), (30, 33), (31, 0), (62, 0), (65, 1), (126, 0), (127, 0), (3, 127), (5, 128), (255, 0),
                                                  (5, 5), (100, 10), (2, 64), (256, 1), (0, 33), (128, 128), (1, 300), (1000, 3)][..]);
    for &(l, m) in big {
        push(&mut v, l, m, Mode::Commit, false);
        if m == 0 {
            push(&mut v, l, 0, Mode::NoCommitment, false);
            push(&mut v, l, 0, Mode::CommitNone, false);
        }
    }
    let n = ctx.t(3usize, 4usize);
    for rep in 0..ctx.t(1, 3) {
        let _ = rep;
        for l in 0..=n {
            for m in 0..=n {
                push(&mut v, l, m, Mode::Commit, true);
            }
            push(&mut v, l, 0, Mode::NoCommitment, true);
            push(&mut v, l, 0, Mode::CommitNone, true);
        }
    }
    v
}

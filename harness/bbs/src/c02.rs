//! C02 — BBS signature binding: nothing but what was signed verifies.

use crate::api::*;
use crate::common::*;
use bls12_381_plus::G2Projective;
use serde_json::json;

struct Honest {
    sk: BBSplusSecretKey,
    pk: BBSplusPublicKey,
    hdr: Hdr,
    msgs: Vec<Vec<u8>>,
    sig: [u8; 80],
}

fn reject<X: Sx>(
    ctx: &Ctx,
    h: &Honest,
    kind: &str,
    pos: String,
    pk: &BBSplusPublicKey,
    sig: &[u8; 80],
    msgs: &[Vec<u8>],
    hdr: Option<&[u8]>,
) {
    let case = format!("{}/L{}/hdr={}/{}/{}", name::<X>(), h.msgs.len(), h.hdr.class(), kind, pos);
    ctx.distinct(&case);
    let d = ctx.call("from_bytes", &case, None, || Sig::<X>::from_bytes(sig));
    let Some(s) = d.value else { return };
    let v = ctx.call("verify", &case, Some(msgs.len() as u64 + 64), || s.verify(pk, Some(msgs), hdr));
    if v.outcome.is_ok() {
        ctx.violation(
            &format!("C02:accepted/{}", kind),
            json!({"case":case,"sk":hx(&h.sk.to_bytes()),"pk_used":hx(&pk.to_bytes()),"header_signed":hx(h.hdr.octets()),
                   "header_used":hdr.map(hx),"messages_signed":msgs_json(&h.msgs),"messages_used":msgs_json(msgs),
                   "signature_signed":hx(&h.sig),"signature_used":hx(sig)}),
        );
    }
    if v.outcome.is_panic() {
        ctx.count("panics_seen(counted as not accepted; C08 judges them)", 1);
    }
    // an empty message list may also be spelled None
    if msgs.is_empty() {
        let v = ctx.call("verify", &case, Some(64), || s.verify(pk, None, hdr));
        if v.outcome.is_ok() {
            ctx.violation(
                &format!("C02:accepted/{}", kind),
                json!({"case":case,"messages_argument":"None","sk":hx(&h.sk.to_bytes()),"pk_used":hx(&pk.to_bytes()),"header_signed":hx(h.hdr.octets()),
                       "header_used":hdr.map(hx),"signature_signed":hx(&h.sig),"signature_used":hx(sig)}),
            );
        }
    }
}

fn one<X: Sx, Y: Sx>(ctx: &Ctx, idx: u64, l: usize, hdr_class: usize, msg_class: usize, all_flips: bool) {
    let mut r = ctx.rng("c02", idx);
    let (sk, pk) = if idx % 3 == 0 {
        key_from_scalar(crate::refimpl::os2ip_mod_r(&rand_bytes(&mut r, 48)))
    } else {
        keypair::<X>(&mut r)
    };
    let hdr = match hdr_class % 6 {
        0 => Hdr::Absent,
        1 => Hdr::Empty,
        2 => Hdr::Bytes(rand_bytes(&mut r, 1)),
        3 => Hdr::Bytes(rand_bytes(&mut r, 24)),
        4 => { let n = *pick(&mut r, &[255usize, 256, 257, 1000]); Hdr::Bytes(rand_bytes(&mut r, n)) }
        _ => { let n = *pick(&mut r, &[65535usize, 65536, 70000]); Hdr::Bytes(rand_bytes(&mut r, n)) }
    };
    let msgs = gen_messages(&mut r, l, msg_class);
    // prior history on this thread: the same key signs and verifies lists of other sizes first, so that
    // any state kept between calls (caches keyed too coarsely, extended incorrectly) is in place
    let pres: &[usize] = if l <= 64 { &[l / 2, l.saturating_sub(1), (l + 2) / 3] } else { &[l / 2] };
    for &pre in pres {
        if pre < l {
            let pm = gen_messages(&mut r, pre, msg_class + 1);
            if let Some(ps) = ctx.call("sign", "history", Some(l as u64 + 64), || Sig::<X>::sign(Some(&pm), &sk, &pk, hdr.as_opt())).value {
                let _ = ctx.call("verify", "history", Some(l as u64 + 64), || ps.verify(&pk, Some(&pm), hdr.as_opt()));
            }
        }
    }
    let m_sign: Option<&[Vec<u8>]> = if l == 0 && idx % 2 == 1 { None } else { Some(&msgs) };
    let s = ctx.call("sign", "honest", None, || Sig::<X>::sign(m_sign, &sk, &pk, hdr.as_opt()));
    let Some(sig) = s.value else {
        ctx.inconclusive("C02: honest sign failed (C01's business)");
        return;
    };
    let h = Honest { sk, pk, hdr, msgs, sig: sig.to_bytes() };
    let v = ctx.call("verify", "honest", None, || sig.verify(&h.pk, Some(&h.msgs), h.hdr.as_opt()));
    if !v.outcome.is_ok() {
        ctx.inconclusive("C02: honest signature did not verify (C01's business)");
        return;
    }
    let ho = h.hdr.as_opt();
    let try_msgs = |kind: &str, pos: String, m: Vec<Vec<u8>>| {
        if m != h.msgs {
            reject::<X>(ctx, &h, kind, pos, &h.pk, &h.sig, &m, ho);
        } else {
            ctx.count("trivial_edits_skipped", 1);
        }
    };
    // ---- message edits
    let positions: Vec<usize> = if l <= 40 { (0..l).collect() } else { (0..3).map(|_| rand_range(&mut r, l)).chain([0, l - 1]).collect() };
    for &i in &positions {
        let mut m = h.msgs.clone();
        if !m[i].is_empty() {
            let b = rand_range(&mut r, m[i].len() * 8);
            m[i][b / 8] ^= 1 << (b % 8);
            try_msgs("msg-bitflip", format!("{i}"), m);
        }
        for (nm, which) in [("msg-first-bit", 0usize), ("msg-last-bit", 1)] {
            let mut m = h.msgs.clone();
            if let Some(len) = Some(m[i].len()).filter(|l| *l > 0) {
                if which == 0 { m[i][0] ^= 0x80 } else { m[i][len - 1] ^= 0x01 }
                try_msgs(nm, format!("{i}"), m);
            }
        }
        let mut m = h.msgs.clone();
        if m[i].len() > 1 {
            m[i].pop();
            try_msgs("msg-truncated", format!("{i}"), m);
        }
        let mut m = h.msgs.clone();
        m[i].insert(0, 0);
        try_msgs("msg-zero-prefixed", format!("{i}"), m);
        let mut m = h.msgs.clone();
        m[i] = Vec::new();
        try_msgs("msg-emptied", format!("{i}"), m);
        let mut m = h.msgs.clone();
        m[i].push(0);
        try_msgs("msg-extended", format!("{i}"), m);
        let mut m = h.msgs.clone();
        m.remove(i);
        try_msgs("msg-deleted", format!("{i}"), m);
        let mut m = h.msgs.clone();
        m.insert(i, rand_bytes(&mut r, 9));
        try_msgs("msg-inserted", format!("{i}"), m);
        let mut m = h.msgs.clone();
        m.insert(i, Vec::new());
        try_msgs("msg-inserted-empty", format!("{i}"), m);
        let mut m = h.msgs.clone();
        m.insert(i, h.msgs[i].clone());
        try_msgs("msg-duplicated", format!("{i}"), m);
    }
    // swaps of distinct messages
    let pairs: Vec<(usize, usize)> = if l <= 8 {
        (0..l).flat_map(|i| (i + 1..l).map(move |j| (i, j))).collect()
    } else {
        (0..16).map(|_| { let i = rand_range(&mut r, l); let j = rand_range(&mut r, l); (i.min(j), i.max(j)) }).filter(|(i, j)| i != j).collect()
    };
    for (i, j) in pairs {
        let mut m = h.msgs.clone();
        m.swap(i, j);
        try_msgs("msg-swapped", format!("{i}-{j}"), m);
    }
    // rotation
    if l >= 2 {
        let mut m = h.msgs.clone();
        m.rotate_left(1);
        try_msgs("msg-rotated", "1".into(), m);
    }
    // prefixes and extensions
    let prefixes: Vec<usize> = if l <= 16 { (0..l).collect() } else { vec![0, 1, l / 2, l - 1] };
    for k in prefixes {
        try_msgs("msg-prefix", format!("{k}"), h.msgs[..k].to_vec());
    }
    for k in 1..=3 {
        let mut m = h.msgs.clone();
        for _ in 0..k {
            m.push(rand_bytes(&mut r, 5));
        }
        try_msgs("msg-appended", format!("{k}"), m);
    }
    let mut m = h.msgs.clone();
    m.push(Vec::new());
    try_msgs("msg-appended-empty", "1".into(), m);
    // ---- header edits (as octet strings; None == empty)
    let mut hdrs: Vec<(String, Option<Vec<u8>>)> = vec![];
    let ho_bytes = h.hdr.octets().to_vec();
    if !ho_bytes.is_empty() {
        let mut x = ho_bytes.clone();
        let b = rand_range(&mut r, x.len() * 8);
        x[b / 8] ^= 1 << (b % 8);
        hdrs.push(("hdr-bitflip".into(), Some(x)));
        hdrs.push(("hdr-truncated".into(), Some(ho_bytes[..ho_bytes.len() - 1].to_vec())));
        hdrs.push(("hdr-removed".into(), None));
        hdrs.push(("hdr-emptied".into(), Some(vec![])));
    } else {
        hdrs.push(("hdr-added".into(), Some(rand_bytes(&mut r, 8))));
    }
    let mut x = ho_bytes.clone();
    x.push(0);
    hdrs.push(("hdr-extended-zero".into(), Some(x)));
    let mut x = vec![0u8];
    x.extend_from_slice(&ho_bytes);
    hdrs.push(("hdr-prefixed".into(), Some(x)));
    // a header replaced by a digest of itself (what a "hash long headers first" shortcut would collide with)
    {
        use sha2::{Digest, Sha256};
        hdrs.push(("hdr-replaced-by-sha256".into(), Some(Sha256::digest(&ho_bytes).to_vec())));
        for (dn, dst) in [("api+H2S_", [&X::ID.api_id()[..], b"H2S_"].concat()), ("api", X::ID.api_id()), ("MAP", [&X::ID.api_id()[..], b"MAP_MSG_TO_SCALAR_AS_HASH_"].concat())] {
            if let Ok(sc) = crate::refimpl::hash_to_scalar(X::ID, &ho_bytes, &dst) {
                hdrs.push((format!("hdr-replaced-by-h2s({dn})"), Some(crate::refimpl::scalar_be(&sc).to_vec())));
            }
        }
        hdrs.push(("hdr-replaced-by-expand48".into(), Some(crate::refimpl::expand_message(X::ID, &ho_bytes, &[&X::ID.api_id()[..], b"H2S_"].concat(), 48))));
    }
    for (kind, hv) in hdrs {
        if hv.as_deref().unwrap_or(&[]) != &ho_bytes[..] {
            reject::<X>(ctx, &h, &kind, "-".into(), &h.pk, &h.sig, &h.msgs, hv.as_deref());
        }
    }
    // ---- other public keys
    let (_, pk2) = keypair::<X>(&mut r);
    if pk2 != h.pk {
        reject::<X>(ctx, &h, "pk-other", "-".into(), &pk2, &h.sig, &h.msgs, ho);
    }
    reject::<X>(ctx, &h, "pk-negated", "-".into(), &BBSplusPublicKey(-h.pk.0), &h.sig, &h.msgs, ho);
    reject::<X>(ctx, &h, "pk-identity", "-".into(), &BBSplusPublicKey(G2Projective::IDENTITY), &h.sig, &h.msgs, ho);
    reject::<X>(ctx, &h, "pk-generator", "-".into(), &BBSplusPublicKey(G2Projective::GENERATOR), &h.sig, &h.msgs, ho);
    reject::<X>(ctx, &h, "pk-doubled", "-".into(), &BBSplusPublicKey(h.pk.0 + h.pk.0), &h.sig, &h.msgs, ho);
    // ---- signature bit flips (all 640 for selected scenarios)
    let flips: Vec<usize> = if all_flips { (0..640).collect() } else { (0..24).map(|_| rand_range(&mut r, 640)).collect() };
    // the exponent e re-encoded as e + r (same residue, other octets)
    if let Some(a) = crate::c04::alias_plus_r(&h.sig[48..]) {
        let mut s2 = h.sig;
        s2[48..].copy_from_slice(&a);
        reject::<X>(ctx, &h, "sig-e-plus-r", "-".into(), &h.pk, &s2, &h.msgs, ho);
    }
    for b in flips {
        let mut s2 = h.sig;
        s2[b / 8] ^= 1 << (b % 8);
        reject::<X>(ctx, &h, "sig-bitflip", format!("{b}"), &h.pk, &s2, &h.msgs, ho);
    }
    // ---- ascending history on a NEW thread: smaller lists first, then this one, signed and verified there. State that is
    // built up incrementally between calls (and extended wrongly) is in place on that thread only; the worker thread may
    // already hold state from larger scenarios, which hides such faults.
    if (2..=12).contains(&l) {
        let accepted: Vec<String> = on_fresh_thread(|| {
            let mut hits = vec![];
            for pre in [1usize, l / 2, l - 1] {
                if pre == 0 || pre >= l {
                    continue;
                }
                if let Some(ps) = ctx.call("sign", "fresh-thread-history", None, || Sig::<X>::sign(Some(&h.msgs[..pre]), &h.sk, &h.pk, ho)).value {
                    let _ = ctx.call("verify", "fresh-thread-history", None, || ps.verify(&h.pk, Some(&h.msgs[..pre]), ho));
                }
            }
            let Some(sig) = ctx.call("sign", "fresh-thread-history", None, || Sig::<X>::sign(Some(&h.msgs), &h.sk, &h.pk, ho)).value else { return hits };
            if !ctx.call("verify", "fresh-thread-history", None, || sig.verify(&h.pk, Some(&h.msgs), ho)).outcome.is_ok() || sig.to_bytes() != h.sig {
                ctx.count("fresh_thread_history_differs(C01's business)", 1);
            }
            for i in 0..l {
                for j in i + 1..l {
                    if h.msgs[i] != h.msgs[j] {
                        let mut m = h.msgs.clone();
                        m.swap(i, j);
                        if ctx.call("verify", "fresh-thread-history", None, || sig.verify(&h.pk, Some(&m), ho)).outcome.is_ok() {
                            hits.push(format!("swapped {i}-{j}"));
                        }
                    }
                }
                let mut m = h.msgs.clone();
                m[i].push(0x55);
                if ctx.call("verify", "fresh-thread-history", None, || sig.verify(&h.pk, Some(&m), ho)).outcome.is_ok() {
                    hits.push(format!("extended {i}"));
                }
            }
            hits
        });
        for hit in accepted {
            let kind = if hit.starts_with("swapped") { "msg-swapped" } else { "msg-extended" };
            ctx.violation(&format!("C02:accepted/{}", kind), json!({"where":"fresh thread with ascending history","what":hit,"L":l,"suite":name::<X>()}));
        }
    }
    // ---- cross-suite: same key, same inputs, other suite's verifier
    {
        let case = format!("{}->{}/L{}/cross-suite", name::<X>(), name::<Y>(), l);
        ctx.distinct(&case);
        if let Some(s) = ctx.call("from_bytes", &case, None, || Sig::<Y>::from_bytes(&h.sig)).value {
            let v = ctx.call("verify", &case, None, || s.verify(&h.pk, Some(&h.msgs), ho));
            if v.outcome.is_ok() {
                ctx.violation("C02:accepted/cross-suite", json!({"case":case,"sk":hx(&h.sk.to_bytes()),"messages":msgs_json(&h.msgs),"sig":hx(&h.sig)}));
            }
        }
    }
    // ---- cross-interface: blind_sign without commitment <-> verify ; sign <-> verify_blind_sign
    {
        let case = format!("{}/L{}/blind->plain", name::<X>(), l);
        ctx.distinct(&case);
        let b = ctx.call("blind_sign", &case, None, || BSig::<X>::blind_sign(&h.sk, &h.pk, None, ho, Some(&h.msgs)));
        if let Some(bs) = b.value {
            let bb = bs.to_bytes();
            if let Some(s) = ctx.call("from_bytes", &case, None, || Sig::<X>::from_bytes(&bb)).value {
                let v = ctx.call("verify", &case, None, || s.verify(&h.pk, Some(&h.msgs), ho));
                if v.outcome.is_ok() {
                    ctx.violation("C02:accepted/blind-signature-through-plain-verify", json!({"case":case,"sig":hx(&bb)}));
                }
            }
        } else {
            ctx.count("blind_sign_failed_in_cross_interface", 1);
        }
        let case = format!("{}/L{}/plain->blind", name::<X>(), l);
        ctx.distinct(&case);
        if let Some(bs) = ctx.call("from_bytes", &case, None, || BSig::<X>::from_bytes(&h.sig)).value {
            for (k, bf) in [None, Some(BlindFactor::from_bytes(&[0u8; 32]).unwrap())].iter().enumerate() {
                let v = ctx.call("verify_blind_sign", &case, None, || bs.verify_blind_sign(&h.pk, ho, Some(&h.msgs), None, bf.as_ref()));
                if v.outcome.is_ok() {
                    ctx.violation("C02:accepted/plain-signature-through-blind-verify", json!({"case":case,"variant":k,"sig":hx(&h.sig)}));
                }
            }
            // most favourable split: last message presented as a committed message
            if l >= 1 {
                let v = ctx.call("verify_blind_sign", &case, None, || bs.verify_blind_sign(&h.pk, ho, Some(&h.msgs[..l - 1]), Some(&h.msgs[l - 1..]), None));
                if v.outcome.is_ok() {
                    ctx.violation("C02:accepted/plain-signature-through-blind-verify", json!({"case":case,"variant":"split","sig":hx(&h.sig)}));
                }
            }
        }
    }
    ctx.sample(json!({"honest":{"suite":name::<X>(),"L":l,"header":hx(h.hdr.octets()),"sig":hx(&h.sig)},"edits":"msg bitflip/empty/extend/delete/insert/dup/swap/rotate/prefix/append, header edits, 5 foreign keys, signature bit flips, cross-suite, cross-interface","all_640_flips":all_flips}));
}

pub fn scenarios(ctx: &Ctx) -> Vec<Scenario> {
    let mut v = Vec::new();
    let mut idx = 0u64;
    let ls: Vec<usize> = if ctx.quick() {
        vec![0, 1, 2, 3, 4, 5, 8, 13, 40, 255, 256, 257]
    } else {
        (0..=40).chain([63, 64, 65, 127, 128, 129, 255, 256, 257, 512, 1000]).collect()
    };
    let reps = ctx.t(2, 6);
    for &l in ls.iter().rev() {
        // no messages at all: the header is the only signed content - more repetitions, non-empty header classes too
        let reps = if l == 0 { reps + 4 } else { reps };
        for rep in 0..reps {
            let i = idx;
            idx += 1;
            // all 640 flips: first repetition of a few sizes in quick, every scenario with L <= 40 in thorough
            let all = if ctx.quick() { rep == 0 && (l == 0 || l == 3) } else { l <= 40 && rep < 2 };
            let (h, m) = (rep + l, rep * 2 + l);
            v.push(scenario(format!("sha/L{l}/r{rep}"), move |c| one::<Sha, Shake>(c, i, l, h, m, all)));
            v.push(scenario(format!("shake/L{l}/r{rep}"), move |c| one::<Shake, Sha>(c, i, l, h, m, all)));
        }
    }
    v
}

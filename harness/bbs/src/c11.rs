//! C11 — Domain separation between ciphersuites, interfaces and sizes.

use crate::api::*;
use crate::common::*;
use crate::refimpl::SuiteId;
use bls12_381_plus::G1Projective;
use group::{Curve, Group};
use rand::RngCore;
use serde_json::json;
use std::collections::HashMap;
use std::sync::{Mutex, OnceLock};

fn rejected(ctx: &Ctx, kind: &str, case: &str, out: &Outcome, detail: serde_json::Value) {
    ctx.distinct(case);
    if out.is_ok() {
        ctx.violation(&format!("C11:foreign-artefact-accepted/{}", kind), json!({"case":case,"detail":detail}));
    }
}

/// artefacts made under suite X (both interfaces) replayed to every other (suite, interface)
fn replays<X: Sx, Y: Sx>(ctx: &Ctx, idx: u64, l: usize, m: usize) {
    let mut r = ctx.rng("c11", idx);
    // the same secret scalar serves both suites: worst case for separation
    let (sk, pk) = key_from_scalar(crate::c04::rand_scalar(&mut r));
    let msgs = gen_messages(&mut r, l, 0);
    let cm = gen_messages(&mut r, m, 0);
    let hdr = Hdr::gen(&mut r, &[5]);
    let ph = Hdr::gen(&mut r, &[5]);
    let (ho, po) = (hdr.as_opt(), ph.as_opt());
    let base = format!("{}->{}/L{}M{}", name::<X>(), name::<Y>(), l, m);
    let sig = Sig::<X>::sign(Some(&msgs), &sk, &pk, ho).unwrap().to_bytes();
    let d: Vec<usize> = (0..l).filter(|_| r.next_u32() % 2 == 0).collect();
    let dm: Vec<Vec<u8>> = d.iter().map(|&i| msgs[i].clone()).collect();
    let proof = Pok::<X>::proof_gen(&pk, &sig, ho, po, Some(&msgs), Some(&d)).unwrap().to_bytes();
    let (com, bf) = Com::<X>::commit(Some(&cm)).unwrap();
    let cwp = com.to_bytes();
    let bsig = BSig::<X>::blind_sign(&sk, &pk, Some(&cwp), ho, Some(&msgs)).unwrap().to_bytes();
    let c: Vec<usize> = (0..m).filter(|_| r.next_u32() % 2 == 0).collect();
    let dcm: Vec<Vec<u8>> = c.iter().map(|&j| cm[j].clone()).collect();
    let bproof = Pok::<X>::blind_proof_gen(&pk, &bsig, ho, po, Some(&msgs), Some(&cm), Some(&d), Some(&c), Some(&bf)).unwrap().to_bytes();
    let zero = BlindFactor::from_bytes(&[0u8; 32]).unwrap();

    // ---- plain signature of X
    if let Ok(s) = Sig::<Y>::from_bytes(&sig) {
        let o = ctx.call("verify", &base, None, || s.verify(&pk, Some(&msgs), ho));
        rejected(ctx, "signature/other-suite", &format!("{base}/sig->verify(Y)"), &o.outcome, json!({"sig":hx(&sig)}));
    }
    for split in 0..=l {
        for (bn, b) in [("none", None), ("zero", Some(&zero)), ("prover", Some(&bf))] {
            if let Ok(s) = BSig::<X>::from_bytes(&sig) {
                let o = ctx.call("verify_blind_sign", &base, None, || s.verify_blind_sign(&pk, ho, Some(&msgs[..split]), Some(&msgs[split..]), b));
                rejected(ctx, "signature/blind-interface", &format!("{base}/sig->vbs(X)/split{split}/{bn}"), &o.outcome, json!({"sig":hx(&sig),"split":split}));
            }
            if let Ok(s) = BSig::<Y>::from_bytes(&sig) {
                let o = ctx.call("verify_blind_sign", &base, None, || s.verify_blind_sign(&pk, ho, Some(&msgs[..split]), Some(&msgs[split..]), b));
                rejected(ctx, "signature/blind-interface-other-suite", &format!("{base}/sig->vbs(Y)/split{split}/{bn}"), &o.outcome, json!({"sig":hx(&sig),"split":split}));
            }
        }
    }
    // ---- blind signature of X
    let mut allm = msgs.clone();
    allm.extend(cm.iter().cloned());
    for (mn, ml) in [("signer-msgs", &msgs), ("all-msgs", &allm)] {
        if let Ok(s) = Sig::<X>::from_bytes(&bsig) {
            let o = ctx.call("verify", &base, None, || s.verify(&pk, Some(ml), ho));
            rejected(ctx, "blind-signature/plain-interface", &format!("{base}/bsig->verify(X)/{mn}"), &o.outcome, json!({"sig":hx(&bsig)}));
        }
        if let Ok(s) = Sig::<Y>::from_bytes(&bsig) {
            let o = ctx.call("verify", &base, None, || s.verify(&pk, Some(ml), ho));
            rejected(ctx, "blind-signature/plain-interface-other-suite", &format!("{base}/bsig->verify(Y)/{mn}"), &o.outcome, json!({"sig":hx(&bsig)}));
        }
    }
    if let Ok(s) = BSig::<Y>::from_bytes(&bsig) {
        let o = ctx.call("verify_blind_sign", &base, None, || s.verify_blind_sign(&pk, ho, Some(&msgs), Some(&cm), Some(&bf)));
        rejected(ctx, "blind-signature/other-suite", &format!("{base}/bsig->vbs(Y)"), &o.outcome, json!({"sig":hx(&bsig)}));
    }
    // ---- commitment of X to the signer of Y
    {
        let o = ctx.call("blind_sign", &base, None, || BSig::<Y>::blind_sign(&sk, &pk, Some(&cwp), ho, Some(&msgs)));
        rejected(ctx, "commitment/other-suite", &format!("{base}/commit->blind_sign(Y)"), &o.outcome, json!({"commitment":hx(&cwp)}));
    }
    // ---- plain proof of X
    if let Ok(p) = Pok::<Y>::from_bytes(&proof) {
        let o = ctx.call("proof_verify", &base, None, || p.proof_verify(&pk, Some(&dm), Some(&d), ho, po));
        rejected(ctx, "proof/other-suite", &format!("{base}/proof->pv(Y)"), &o.outcome, json!({}));
    }
    // through the blind verifiers: every split of the U+R positions into L signer + 1 + M committed,
    // with every consistent assignment of the disclosed data to the two lists
    let n = l; // U + R of the plain proof
    for ls in 0..n {
        if d.contains(&ls) {
            continue; // flat position ls would be the blind-factor slot
        }
        let (mut si, mut sm, mut ci, mut cmx) = (vec![], vec![], vec![], vec![]);
        for (k, &i) in d.iter().enumerate() {
            if i < ls { si.push(i); sm.push(dm[k].clone()); } else { ci.push(i - ls - 1); cmx.push(dm[k].clone()); }
        }
        if let Ok(p) = Pok::<X>::from_bytes(&proof) {
            let o = ctx.call("blind_proof_verify", &base, None, || p.blind_proof_verify(&pk, ho, po, Some(ls), Some(&sm), Some(&cmx), Some(&si), Some(&ci)));
            rejected(ctx, "proof/blind-interface", &format!("{base}/proof->bpv(X)/Ls{ls}"), &o.outcome, json!({"Ls":ls}));
        }
        if let Ok(p) = Pok::<Y>::from_bytes(&proof) {
            let o = ctx.call("blind_proof_verify", &base, None, || p.blind_proof_verify(&pk, ho, po, Some(ls), Some(&sm), Some(&cmx), Some(&si), Some(&ci)));
            rejected(ctx, "proof/blind-interface-other-suite", &format!("{base}/proof->bpv(Y)/Ls{ls}"), &o.outcome, json!({"Ls":ls}));
        }
    }
    // ---- blind proof of X
    if let Ok(p) = Pok::<Y>::from_bytes(&bproof) {
        let o = ctx.call("blind_proof_verify", &base, None, || p.blind_proof_verify(&pk, ho, po, Some(l), Some(&dm), Some(&dcm), Some(&d), Some(&c)));
        rejected(ctx, "blind-proof/other-suite", &format!("{base}/bproof->bpv(Y)"), &o.outcome, json!({}));
    }
    {
        // flat presentation to the plain verifiers
        let mut fi = d.clone();
        fi.extend(c.iter().map(|j| j + l + 1));
        let mut fm = dm.clone();
        fm.extend(dcm.iter().cloned());
        if let Ok(p) = Pok::<X>::from_bytes(&bproof) {
            let o = ctx.call("proof_verify", &base, None, || p.proof_verify(&pk, Some(&fm), Some(&fi), ho, po));
            rejected(ctx, "blind-proof/plain-interface", &format!("{base}/bproof->pv(X)"), &o.outcome, json!({}));
        }
        if let Ok(p) = Pok::<Y>::from_bytes(&bproof) {
            let o = ctx.call("proof_verify", &base, None, || p.proof_verify(&pk, Some(&fm), Some(&fi), ho, po));
            rejected(ctx, "blind-proof/plain-interface-other-suite", &format!("{base}/bproof->pv(Y)"), &o.outcome, json!({}));
        }
    }
    ctx.sample(json!({"replay":base,"artefacts":["signature","blind signature","commitment","proof","blind proof"],"targets":"every other (suite, interface) verifier, every signer/committed split"}));
}

static POINTS: OnceLock<Mutex<HashMap<[u8; 48], String>>> = OnceLock::new();

fn api_ids(s: SuiteId) -> Vec<(String, Option<Vec<u8>>)> {
    let o = if s == SuiteId::Sha { SuiteId::Shake } else { SuiteId::Sha };
    vec![
        ("api".into(), Some(s.api_id())),
        ("blind".into(), Some(s.blind_api_id())),
        ("BLIND_api".into(), Some([b"BLIND_".as_slice(), &s.api_id()].concat())),
        ("BLIND_blind".into(), Some([b"BLIND_".as_slice(), &s.blind_api_id()].concat())),
        ("other-suite-api".into(), Some(o.api_id())),
        ("other-suite-blind".into(), Some(o.blind_api_id())),
        ("empty".into(), Some(vec![])),
        ("binary-80".into(), Some([&s.api_id()[..], &[0x80]].concat())),
        ("binary-81".into(), Some([&s.api_id()[..], &[0x81]].concat())),
        ("binary-fffe".into(), Some(vec![0xff, 0xfe, 0x00, 0x41])),
        ("binary-fffd".into(), Some(vec![0xff, 0xfd, 0x00, 0x41])),
        ("binary-e282".into(), Some(vec![0xe2, 0x82])),
        ("binary-e283".into(), Some(vec![0xe2, 0x83])),
        // api_id || "SIG_GENERATOR_SEED_" crosses the 255-octet DST limit at 237 octets (RFC 9380 oversize rule)
        ("long-236".into(), Some(vec![b'q'; 236])),
        ("long-237".into(), Some(vec![b'q'; 237])),
        ("long-1000".into(), Some(vec![b'q'; 1000])),
    ]
}

/// generator sets: prefix consistency, duplicate-freeness, disjointness across (expander, api_id)
fn generators<X: Sx, Y: Sx>(ctx: &Ctx, n: usize, which: usize) {
    let (an, api) = api_ids(X::ID)[which].clone();
    let origin = format!("{}/{}", name::<X>(), an);
    let g = ctx.call("Generators::create", &format!("{origin}/n{n}"), Some(n as u64 + 8), || Ok::<_, ()>(Generators::create::<X::CS>(n, api.as_deref()))).value;
    let Some(g) = g else {
        ctx.violation("C11:generators-create-failed", json!({"origin":origin}));
        return;
    };
    if g.values.len() != n {
        ctx.violation("C11:generator-count", json!({"origin":origin,"asked":n,"got":g.values.len()}));
    }
    // the set is the one an independent implementation of the drafts derives for (expander, api id)
    let want = crate::refimpl::create_generators(X::ID, n.min(40), api.as_deref().unwrap_or(&[]));
    if g.values.len() < want.len() || g.values[..want.len()] != want[..] {
        ctx.violation("C11:generators-differ-from-reference", json!({"origin":origin}));
    }
    let p1s = [SuiteId::Sha.p1(), SuiteId::Shake.p1()];
    let mut map = POINTS.get_or_init(|| Mutex::new(HashMap::new())).lock().unwrap();
    for (i, p) in g.values.iter().enumerate() {
        let case = format!("{origin}/gen{i}");
        ctx.distinct(&case);
        if bool::from(p.is_identity()) {
            ctx.violation("C11:generator-is-identity", json!({"at":case}));
        }
        if *p == G1Projective::GENERATOR || p1s.contains(p) || *p == -G1Projective::GENERATOR {
            ctx.violation("C11:generator-is-fixed-point", json!({"at":case}));
        }
        let k = p.to_affine().to_compressed();
        // "empty" and None are the same api id by definition; every other collision is a violation
        if let Some(prev) = map.get(&k) {
            if prev != &case {
                let same_set = prev.rsplit_once("/gen").map(|x| x.0) == Some(origin.as_str());
                ctx.violation(if same_set { "C11:duplicate-generator-within-set" } else { "C11:generator-shared-across-sets" }, json!({"first":prev,"again":case,"point":hex::encode(k)}));
            }
        } else {
            map.insert(k, case);
        }
    }
    drop(map);
    ctx.count("generator_points_in_global_set", g.values.len() as u64);
    // prefix consistency
    let mut ks: Vec<usize> = (0..=16.min(n)).collect();
    let mut p = 32;
    while p < n {
        ks.push(p);
        p *= 2;
    }
    if n > 0 {
        ks.push(n - 1);
    }
    for k in ks {
        let case = format!("{origin}/prefix{k}of{n}");
        ctx.distinct(&case);
        let gk = ctx.call("Generators::create", &case, Some(k as u64 + 8), || Ok::<_, ()>(Generators::create::<X::CS>(k, api.as_deref()))).value;
        match gk {
            Some(gk) if gk.values.len() == k && gk.values[..] == g.values[..k] && gk.g1_base_point == g.g1_base_point => {}
            _ => ctx.violation("C11:generators-depend-on-count", json!({"origin":origin,"k":k,"n":n})),
        }
    }
    // the other expander with the very same api id octets, on this same thread, before and after: the two
    // sets are disjoint and what this suite returns does not depend on what was asked earlier
    for k in [n.min(4), n] {
        let case = format!("{origin}/other-expander-same-api-id/k{k}");
        ctx.distinct(&case);
        let Some(gy) = ctx.call("Generators::create", &case, Some(k as u64 + 8), || Ok::<_, ()>(Generators::create::<Y::CS>(k, api.as_deref()))).value else {
            ctx.violation("C11:generators-create-failed", json!({"origin":case}));
            continue;
        };
        for (i, p) in gy.values.iter().enumerate() {
            if let Some(j) = g.values.iter().position(|q| q == p) {
                ctx.violation("C11:generator-shared-across-sets", json!({"first":format!("{origin}/gen{j}"),"again":format!("{}/{}/gen{i}", name::<Y>(), an),"same_thread":true}));
                break;
            }
        }
        if gy.g1_base_point == g.g1_base_point {
            ctx.violation("C11:base-point-shared-across-suites", json!({"origin":case}));
        }
        let again = ctx.call("Generators::create", &case, Some(n as u64 + 8), || Ok::<_, ()>(Generators::create::<X::CS>(n, api.as_deref()))).value;
        if again.as_ref().map(|a| a.values[..] == g.values[..]) != Some(true) {
            ctx.violation("C11:generators-depend-on-history", json!({"origin":case}));
        }
    }
    if which == 6 {
        // None behaves as the empty api id
        let gn = Generators::create::<X::CS>(n.min(8), None);
        if gn.values[..] != g.values[..n.min(8)] {
            ctx.violation("C11:none-api-id-differs-from-empty", json!({"origin":origin}));
        }
    }
}

/// the public helper that assembles the blind-interface generator list: for every api id (incl. None) the
/// two parts must be the reference's sets, disjoint and duplicate-free, and None must behave as the empty id
fn prepare_params<X: Sx>(ctx: &Ctx, idx: u64) {
    use crate::refimpl as rf;
    use zkryptium::bbsplus::blind::prepare_parameters;
    let mut r = ctx.rng("c11p", idx);
    let apis: Vec<(&str, Option<Vec<u8>>)> = vec![
        ("none", None),
        ("empty", Some(vec![])),
        ("api", Some(X::ID.api_id())),
        ("blind", Some(X::ID.blind_api_id())),
        ("custom", Some(b"MY_APP_V1_".to_vec())),
    ];
    for (an, api) in &apis {
        for (l, m) in [(0usize, 0usize), (1, 0), (0, 1), (2, 3), (5, 5), (9, 2)] {
            let case = format!("{}/prepare_parameters/{}/L{}M{}", name::<X>(), an, l, m);
            ctx.distinct(&case);
            let msgs = gen_messages(&mut r, l, 0);
            let cm = gen_messages(&mut r, m, 0);
            let bf = BlindFactor::random();
            let got = ctx.call("prepare_parameters", &case, None, || prepare_parameters::<X::CS>(Some(&msgs), Some(&cm), l + 1, m + 1, Some(&bf), api.as_deref()));
            let Some((scalars, gens)) = got.value else {
                ctx.violation("C11:prepare_parameters-failed", json!({"case":case,"outcome":got.outcome.short()}));
                continue;
            };
            let a = api.clone().unwrap_or_default();
            let mut want = rf::create_generators(X::ID, l + 1, &a);
            want.extend(rf::create_generators(X::ID, m + 1, &[b"BLIND_".as_slice(), &a].concat()));
            if gens.values != want {
                ctx.violation("C11:prepare_parameters-generators-differ-from-reference", json!({"case":case}));
            }
            let mut seen = std::collections::HashSet::new();
            for g in &gens.values {
                if !seen.insert(g.to_affine().to_compressed()) {
                    ctx.violation("C11:prepare_parameters-duplicate-generator", json!({"case":case}));
                    break;
                }
            }
            let mut ws = rf::messages_to_scalars(X::ID, &msgs, &a).unwrap();
            ws.push(rf::octets_to_scalar(&bf.to_bytes()).unwrap());
            ws.extend(rf::messages_to_scalars(X::ID, &cm, &a).unwrap());
            if scalars.iter().map(|s| s.value).collect::<Vec<_>>() != ws {
                ctx.violation("C11:prepare_parameters-scalars-differ-from-reference", json!({"case":case}));
            }
        }
    }
}

/// the low-level validation step of BlindSign with caller-chosen parameters: a commitment made by suite X under its
/// blind interface validates under exactly one (expander, generator set, api id) triple - its own. Every other
/// combination, including api ids for which an internal step fails (too long for a DST), must be refused.
fn validate_grid<X: Sx, Y: Sx>(ctx: &Ctx, idx: u64, m: usize) {
    let mut r = ctx.rng("c11v", idx);
    let cm = gen_messages(&mut r, m, idx as usize);
    let arg: Option<&[Vec<u8>]> = if m == 0 && idx % 2 == 1 { None } else { Some(&cm) };
    let Some((com, _bf)) = ctx.call("commit", "grid", None, || Com::<X>::commit(arg)).value else {
        ctx.inconclusive("C11: honest commit failed (C05's business)");
        return;
    };
    let cwp = com.to_bytes();
    let own_api = X::ID.blind_api_id();
    let mut ids: Vec<(String, Option<Vec<u8>>)> = api_ids(X::ID);
    ids.push(("none".into(), None));
    for n in [200usize, 251, 252, 255, 256, 300, 70000] {
        let mut a = own_api.clone();
        a.resize(n, b'x');
        ids.push((format!("long-{n}"), Some(a)));
    }
    let gen_ids: Vec<(String, Option<Vec<u8>>)> = ids.iter().filter(|(n, _)| !n.starts_with("long-") || n == "long-252").cloned().collect();
    let own_gen_api = [b"BLIND_".as_slice(), &own_api].concat();
    let mut accepted_own = 0;
    for (gn, gapi) in &gen_ids {
        for extra in [0usize, 2] {
            let gx = Generators::create::<X::CS>(m + 1 + extra, gapi.as_deref());
            let gy = Generators::create::<Y::CS>(m + 1 + extra, gapi.as_deref());
            for (an, aapi) in &ids {
                for (sn, is_x) in [(name::<X>(), true), (name::<Y>(), false)] {
                    let case = format!("{}-commitment/M{m}/validate[{sn}, gens={gn}+{extra}, api={an}]", name::<X>());
                    let o = if is_x {
                        ctx.call("deserialize_and_validate_commit", &case, Some(64), || Com::<X>::deserialize_and_validate_commit(Some(&cwp), &gx, aapi.as_deref()))
                    } else {
                        ctx.call("deserialize_and_validate_commit", &case, Some(64), || Com::<Y>::deserialize_and_validate_commit(Some(&cwp), &gy, aapi.as_deref()))
                    };
                    let own = is_x && gapi.as_deref() == Some(&own_gen_api[..]) && aapi.as_deref() == Some(&own_api[..]);
                    ctx.distinct(&format!("{}/M{m}/{sn}/{gn}/{an}", name::<X>()));
                    if own {
                        accepted_own += 1;
                        if !o.outcome.is_ok() {
                            ctx.violation("C11:own-commitment-refused-by-validation", json!({"case":case,"outcome":o.outcome.short()}));
                        }
                    } else if o.outcome.is_ok() {
                        ctx.violation("C11:foreign-artefact-accepted/commitment-validation", json!({"case":case,"commitment":hx_full(&cwp)}));
                    }
                }
            }
        }
    }
    ctx.count("validation_grid_own_triples_accepted", accepted_own);
}

/// volume: many fresh honest proofs of X through Y's verifier and through the other interface. The challenge
/// comparison is what binds a proof to its suite and interface; a comparison that is wrong for one value shape in a few
/// hundred lets exactly that fraction of foreign proofs through.
fn volume_replays<X: Sx, Y: Sx>(ctx: &Ctx, idx: u64, n: usize) {
    let mut r = ctx.rng("c11vol", idx);
    let (sk, pk) = key_from_scalar(crate::c04::rand_scalar(&mut r));
    let msgs = gen_messages(&mut r, 3, 0);
    let sig = Sig::<X>::sign(Some(&msgs), &sk, &pk, None).unwrap().to_bytes();
    let case = format!("{}->{}/volume", name::<X>(), name::<Y>());
    ctx.distinct(&case);
    let d = [0usize, 2];
    let dm = vec![msgs[0].clone(), msgs[2].clone()];
    let mut ok_own = 0u64;
    for k in 0..n {
        let ph = (k as u64).to_be_bytes();
        let Ok(proof) = Pok::<X>::proof_gen(&pk, &sig, None, Some(&ph), Some(&msgs), Some(&d)) else {
            ctx.inconclusive("C11: honest proof_gen failed (C03's business)");
            return;
        };
        let pb = proof.to_bytes();
        if let Ok(p) = Pok::<Y>::from_bytes(&pb) {
            let o = ctx.call("proof_verify", &case, None, || p.proof_verify(&pk, Some(&dm), Some(&d), None, Some(&ph)));
            rejected(ctx, "proof/other-suite(volume)", &case, &o.outcome, json!({"proof":hx_full(&pb),"k":k}));
            let o = ctx.call("blind_proof_verify", &case, None, || p.blind_proof_verify(&pk, None, Some(&ph), Some(3), Some(&dm), None, Some(&d), None));
            rejected(ctx, "proof/other-suite-blind-interface(volume)", &case, &o.outcome, json!({"proof":hx_full(&pb),"k":k}));
        }
        let o = ctx.call("blind_proof_verify", &case, None, || proof.blind_proof_verify(&pk, None, Some(&ph), Some(2), Some(&dm), None, Some(&d), None));
        rejected(ctx, "proof/blind-interface(volume)", &case, &o.outcome, json!({"proof":hx_full(&pb),"k":k}));
        if k % 16 == 0 && proof.proof_verify(&pk, Some(&dm), Some(&d), None, Some(&ph)).is_ok() {
            ok_own += 1;
        }
        ctx.count("volume_foreign_verifications", 3);
    }
    if ok_own == 0 {
        ctx.inconclusive("C11: no honest proof verified under its own suite in the volume workload");
    }
}

pub fn scenarios(ctx: &Ctx) -> Vec<Scenario> {
    let mut v = Vec::new();
    let lm: &[(usize, usize)] = ctx.t(&[(0, 0), (1, 0), (2, 1), (3, 3), (5, 2)][..], &[(0, 0), (1, 0), (0, 1), (2, 1), (3, 3), (5, 2), (8, 4), (4, 8)][..]);
    for rep in 0..ctx.t(4u64, 10u64) {
        for (k, &(l, m)) in lm.iter().enumerate() {
            let i = rep * 20 + k as u64;
            v.push(scenario(format!("replay/sha->shake/L{l}M{m}"), move |c| replays::<Sha, Shake>(c, i, l, m)));
            v.push(scenario(format!("replay/shake->sha/L{l}M{m}"), move |c| replays::<Shake, Sha>(c, i + 10, l, m)));
        }
    }
    for m in [0usize, 1, 3] {
        for rep in 0..ctx.t(1u64, 3u64) {
            v.push(scenario(format!("validate-grid/sha/M{m}"), move |c| validate_grid::<Sha, Shake>(c, 9000 + rep * 2 + m as u64 * 10, m)));
            v.push(scenario(format!("validate-grid/shake/M{m}"), move |c| validate_grid::<Shake, Sha>(c, 9001 + rep * 2 + m as u64 * 10, m)));
        }
    }
    let nvol = ctx.t(250usize, 2500usize);
    for i in 0..6u64 {
        v.push(scenario("volume/sha->shake", move |c| volume_replays::<Sha, Shake>(c, 9500 + i, nvol)));
        v.push(scenario("volume/shake->sha", move |c| volume_replays::<Shake, Sha>(c, 9600 + i, nvol)));
    }
    v.push(scenario("prepare_parameters/sha", |c| prepare_params::<Sha>(c, 7000)));
    v.push(scenario("prepare_parameters/shake", |c| prepare_params::<Shake>(c, 7001)));
    let n = ctx.t(256usize, 1024usize);
    for which in 0..16usize {
        v.push(scenario(format!("generators/sha/{which}"), move |c| generators::<Sha, Shake>(c, n, which)));
        v.push(scenario(format!("generators/shake/{which}"), move |c| generators::<Shake, Sha>(c, n, which)));
    }
    v
}

pub fn finish(ctx: &Ctx) {
    let n = POINTS.get().map(|m| m.lock().unwrap().len()).unwrap_or(0);
    ctx.set_extra("distinct_generator_points_in_global_set", json!(n));
}

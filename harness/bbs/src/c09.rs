//! C09 — Encodings are canonical and strict.
//! (1) round trips of API-produced objects through every codec; (2) canonicality: for every
//! candidate octet string b, decode(b) = Ok(x) implies encode(x) = b; (3) forbidden classes are Err.

use crate::api::*;
use crate::common::*;
use crate::refimpl as rf;
use bls12_381_plus::{G1Affine, G1Projective, G2Affine, G2Projective, Scalar};
use group::Curve;
use rand::RngCore;
use serde_json::json;
use zkryptium::bbsplus::proof::BBSplusZKPoK;
use zkryptium::utils::message::bbsplus_message::BBSplusMessage;

const R_BE: &str = "73eda753299d7d483339d80809a1d80553bda402fffe5bfeffffffff00000001";
const P_BE: &str = "1a0111ea397fe69a4b1ba7b6434bacd764774b84f38512bf6730d2a0f6b0f6241eabfffeb153ffffb9feffffffffaaab";

#[derive(Clone, Copy, PartialEq, Debug)]
enum Slot {
    G1,
    G2,
    Sc,
}

/// Decoder under test: returns the re-encoding of the decoded object.
type Dec = Box<dyn Fn(&[u8]) -> Result<Vec<u8>, String> + Send + Sync>;

struct Codec {
    name: &'static str,
    dec: Dec,
    /// (offset, kind, identity forbidden / zero forbidden)
    slots: Vec<(usize, Slot, bool)>,
    /// fixed length (decoder takes an array) => wrong lengths are not typable
    fixed: Option<usize>,
}

fn add_be(a: &[u8], b: &[u8]) -> Vec<u8> {
    let mut out = vec![0u8; a.len()];
    let mut carry = 0u16;
    for i in (0..a.len()).rev() {
        let s = a[i] as u16 + b[i] as u16 + carry;
        out[i] = s as u8;
        carry = s >> 8;
    }
    out
}

fn scalar_patterns() -> Vec<(&'static str, Vec<u8>, bool)> {
    // (name, bytes, must_be_rejected_everywhere)
    let r = hex::decode(R_BE).unwrap();
    let one = { let mut o = vec![0u8; 32]; o[31] = 1; o };
    let rm1 = { let mut x = r.clone(); x[31] -= 1; x };
    vec![
        ("zero", vec![0u8; 32], false),
        ("r-1", rm1, false),
        ("r", r.clone(), true),
        ("r+1", add_be(&r, &one), true),
        ("2r", add_be(&r, &r), true),
        ("2^256-1", vec![0xff; 32], true),
    ]
}

/// G1 point patterns: (name, 48 bytes, must_be_rejected)
fn g1_patterns(r: &mut impl RngCore, honest: &[u8]) -> Vec<(String, Vec<u8>, bool)> {
    let mut v: Vec<(String, Vec<u8>, bool)> = vec![];
    let mut x = honest.to_vec();
    x[0] &= 0x7f;
    v.push(("compression-flag-cleared".into(), x, true));
    let mut x = honest.to_vec();
    x[0] ^= 0x20;
    v.push(("sort-flag-flipped".into(), x, false)); // valid encoding of -P: canonical
    let mut inf = vec![0u8; 48];
    inf[0] = 0xc0;
    v.push(("infinity".into(), inf.clone(), false)); // canonical identity; forbidden only in some slots
    let mut x = inf.clone();
    x[0] = 0xe0;
    v.push(("infinity+sort".into(), x, true));
    let mut x = inf.clone();
    x[47] = 1;
    v.push(("infinity+body".into(), x, true));
    let mut x = honest.to_vec();
    x[0] |= 0x40;
    v.push(("honest+infinity-flag".into(), x, true));
    let p = hex::decode(P_BE).unwrap();
    let mut x = p.clone();
    x[0] |= 0x80;
    v.push(("x=p".into(), x, true));
    v.push(("all-ones".into(), vec![0xff; 48], true));
    // x = p + x_small for a valid point with small x (non-canonical field element)
    for _ in 0..200 {
        let pt = (G1Projective::GENERATOR * crate::c04::rand_scalar(r)).to_affine().to_compressed();
        let mut xb = pt.to_vec();
        let flags = xb[0] & 0xe0;
        xb[0] &= 0x1f;
        if xb[0] < 0x05 {
            let mut y = add_be(&xb, &p);
            y[0] |= flags;
            v.push(("x=p+x_small".into(), y, true));
            break;
        }
    }
    // off curve / on curve but outside the prime-order subgroup (found by search)
    let (mut off, mut nosub) = (0, 0);
    for _ in 0..400 {
        let mut b = rand_bytes(r, 48);
        b[0] = 0x80 | (b[0] & 0x3f) % 0x1a | (b[0] & 0x20);
        let a: [u8; 48] = b.clone().try_into().unwrap();
        match Option::<G1Affine>::from(G1Affine::from_compressed_unchecked(&a)) {
            None if off < 3 => {
                off += 1;
                v.push((format!("off-curve#{off}"), b, true));
            }
            Some(pt) if !bool::from(pt.is_torsion_free()) && nosub < 3 => {
                nosub += 1;
                v.push((format!("non-subgroup#{nosub}"), b, true));
            }
            _ => {}
        }
        if off >= 3 && nosub >= 3 {
            break;
        }
    }
    v
}

fn g2_patterns(r: &mut impl RngCore, honest: &[u8]) -> Vec<(String, Vec<u8>, bool)> {
    let mut v: Vec<(String, Vec<u8>, bool)> = vec![];
    let mut x = honest.to_vec();
    x[0] &= 0x7f;
    v.push(("compression-flag-cleared".into(), x, true));
    let mut x = honest.to_vec();
    x[0] ^= 0x20;
    v.push(("sort-flag-flipped".into(), x, false));
    let mut inf = vec![0u8; 96];
    inf[0] = 0xc0;
    v.push(("infinity".into(), inf.clone(), false));
    let mut x = inf.clone();
    x[0] = 0xe0;
    v.push(("infinity+sort".into(), x, true));
    let mut x = inf.clone();
    x[95] = 1;
    v.push(("infinity+body".into(), x, true));
    v.push(("all-ones".into(), vec![0xff; 96], true));
    let p = hex::decode(P_BE).unwrap();
    let mut x = honest.to_vec();
    x[..48].copy_from_slice(&p);
    x[0] |= 0x80;
    v.push(("c1=p".into(), x, true));
    let mut x = honest.to_vec();
    x[48..].copy_from_slice(&p);
    v.push(("c0=p".into(), x, true));
    let (mut off, mut nosub) = (0, 0);
    for _ in 0..400 {
        let mut b = rand_bytes(r, 96);
        b[0] = 0x80 | (b[0] & 0x3f) % 0x1a | (b[0] & 0x20);
        b[48] %= 0x1a;
        let a: [u8; 96] = b.clone().try_into().unwrap();
        match Option::<G2Affine>::from(G2Affine::from_compressed_unchecked(&a)) {
            None if off < 3 => {
                off += 1;
                v.push((format!("off-curve#{off}"), b, true));
            }
            Some(pt) if !bool::from(pt.is_torsion_free()) && nosub < 3 => {
                nosub += 1;
                v.push((format!("non-subgroup#{nosub}"), b, true));
            }
            _ => {}
        }
        if off >= 3 && nosub >= 3 {
            break;
        }
    }
    v
}

fn check(ctx: &Ctx, c: &Codec, suite: &str, kind: &str, pos: &str, b: &[u8], must_reject: bool) {
    let case = format!("{}/{}/{}/{}", suite, c.name, kind, pos);
    ctx.distinct(&case);
    let m = ctx.call(&format!("decode/{}", c.name), &case, None, || (c.dec)(b));
    match (&m.outcome, m.value) {
        (Outcome::Ok, Some(re)) => {
            if must_reject {
                ctx.violation(&format!("C09:forbidden-accepted/{}/{}", c.name, kind.split('#').next().unwrap()), json!({"case":case,"input":hx_full(b)}));
            } else if re != b {
                ctx.violation(&format!("C09:non-canonical-accepted/{}/{}", c.name, kind.split('#').next().unwrap()), json!({"case":case,"input":hx_full(b),"reencoded":hx_full(&re)}));
            }
        }
        (Outcome::Panic(p), _) => {
            ctx.count("panics_seen(C08 judges them)", 1);
            let _ = p;
        }
        _ => {}
    }
}

fn codec_sweep<X: Sx>(ctx: &Ctx, idx: u64, which: usize) {
    let mut r = ctx.rng("c09", idx);
    let (sk, pk) = keypair::<X>(&mut r);
    let msgs = gen_messages(&mut r, 4, 0);
    let sig = Sig::<X>::sign(Some(&msgs), &sk, &pk, Some(b"hdr")).unwrap();
    let proof = Pok::<X>::proof_gen(&pk, &sig.to_bytes(), Some(b"hdr"), None, Some(&msgs), Some(&[1])).unwrap();
    let (com, bf) = Com::<X>::commit(Some(&msgs[..2])).unwrap();
    let bsig = BSig::<X>::blind_sign(&sk, &pk, Some(&com.to_bytes()), None, Some(&msgs)).unwrap();
    let u = 3usize;
    let (cx, cy) = pk.to_coordinates();
    let arr = |b: &[u8], n: usize| -> Result<Vec<u8>, String> { if b.len() == n { Ok(b.to_vec()) } else { Err("len".into()) } };
    let codecs: Vec<(Codec, Vec<u8>)> = vec![
        (Codec { name: "PublicKey", dec: Box::new(|b| BBSplusPublicKey::from_bytes(b).map(|k| k.to_bytes().to_vec()).map_err(|e| format!("{e:?}"))), slots: vec![(0, Slot::G2, true)], fixed: None }, pk.to_bytes().to_vec()),
        (Codec { name: "SecretKey", dec: Box::new(|b| BBSplusSecretKey::from_bytes(b).map(|k| k.to_bytes().to_vec()).map_err(|e| format!("{e:?}"))), slots: vec![(0, Slot::Sc, false)], fixed: None }, sk.to_bytes().to_vec()),
        (Codec { name: "Signature", dec: Box::new(move |b| { let a: [u8; 80] = arr(b, 80)?.try_into().unwrap(); Sig::<X>::from_bytes(&a).map(|s| s.to_bytes().to_vec()).map_err(|e| format!("{e:?}")) }), slots: vec![(0, Slot::G1, true), (48, Slot::Sc, true)], fixed: Some(80) }, sig.to_bytes().to_vec()),
        (Codec { name: "BlindSignature", dec: Box::new(move |b| { let a: [u8; 80] = arr(b, 80)?.try_into().unwrap(); BSig::<X>::from_bytes(&a).map(|s| s.to_bytes().to_vec()).map_err(|e| format!("{e:?}")) }), slots: vec![(0, Slot::G1, true), (48, Slot::Sc, true)], fixed: Some(80) }, bsig.to_bytes().to_vec()),
        (Codec { name: "PoKSignature", dec: Box::new(|b| Pok::<X>::from_bytes(b).map(|p| p.to_bytes()).map_err(|e| format!("{e:?}"))),
                 slots: [(0, Slot::G1, true), (48, Slot::G1, true), (96, Slot::G1, true)].into_iter().chain((0..4 + u).map(|k| (144 + 32 * k, Slot::Sc, false))).collect(), fixed: None }, proof.to_bytes()),
        (Codec { name: "Commitment", dec: Box::new(|b| Com::<X>::from_bytes(b).map(|p| p.to_bytes()).map_err(|e| format!("{e:?}"))),
                 slots: std::iter::once((0, Slot::G1, false)).chain((0..4).map(|k| (48 + 32 * k, Slot::Sc, false))).collect(), fixed: None }, com.to_bytes()),
        (Codec { name: "ZKPoK", dec: Box::new(|b| BBSplusZKPoK::from_bytes(b).map(|p| p.to_bytes()).map_err(|e| format!("{e:?}"))),
                 slots: (0..4).map(|k| (32 * k, Slot::Sc, false)).collect(), fixed: None }, com.to_bytes()[48..].to_vec()),
        (Codec { name: "BlindFactor", dec: Box::new(move |b| { let a: [u8; 32] = arr(b, 32)?.try_into().unwrap(); BlindFactor::from_bytes(&a).map(|s| s.to_bytes().to_vec()).map_err(|e| format!("{e:?}")) }), slots: vec![(0, Slot::Sc, false)], fixed: Some(32) }, bf.to_bytes().to_vec()),
        (Codec { name: "MessageScalar", dec: Box::new(move |b| { let a: [u8; 32] = arr(b, 32)?.try_into().unwrap(); BBSplusMessage::from_bytes_be(&a).map(|s| s.to_bytes_be().to_vec()).map_err(|e| format!("{e:?}")) }), slots: vec![(0, Slot::Sc, false)], fixed: Some(32) }, rf::scalar_be(&crate::c04::rand_scalar(&mut r)).to_vec()),
        (Codec { name: "PublicKeyCoordinates", dec: Box::new(move |b| {
                    let a = arr(b, 192)?;
                    BBSplusPublicKey::from_coordinates(a[..96].try_into().unwrap(), a[96..].try_into().unwrap())
                        .map(|k| { let (x, y) = k.to_coordinates(); [x.to_vec(), y.to_vec()].concat() }).map_err(|e| format!("{e:?}")) }),
                 slots: vec![], fixed: Some(192) }, [cx.to_vec(), cy.to_vec()].concat()),
    ];
    let suite = name::<X>();
    let (c, honest) = &codecs[which % codecs.len()];
    // honest must decode and re-encode to itself
    check(ctx, c, suite, "honest", "-", honest, false);
    match (c.dec)(honest) {
        Ok(re) if &re == honest => {}
        other => ctx.violation(&format!("C09:honest-roundtrip/{}", c.name), json!({"input":hx_full(honest),"got":format!("{:?}", other.map(|v| hx_full(&v)))})),
    }
    // all single-bit flips
    for b in 0..honest.len() * 8 {
        let mut x = honest.clone();
        x[b / 8] ^= 1 << (b % 8);
        check(ctx, c, suite, "bitflip", &b.to_string(), &x, false);
    }
    // extensions / truncations
    if c.fixed.is_none() {
        for k in 1..=64usize {
            let mut x = honest.clone();
            x.extend(vec![0u8; k]);
            check(ctx, c, suite, "extended-zero", &k.to_string(), &x, k % 32 != 0 || c.slots.len() <= 1);
            let mut x = honest.clone();
            x.extend(rand_bytes(&mut r, k));
            check(ctx, c, suite, "extended-random", &k.to_string(), &x, k % 32 != 0 || c.slots.len() <= 1);
            if k <= honest.len() {
                let x = &honest[..honest.len() - k];
                check(ctx, c, suite, "truncated", &k.to_string(), x, k % 32 != 0 || c.slots.len() <= 1);
            }
        }
        // every whole-scalar truncation down to nothing (a decoder may accept a shorter well-formed-looking prefix)
        let mut cut = 32;
        while cut <= honest.len() {
            let x = &honest[..honest.len() - cut];
            // a prefix that is itself a well-formed shorter object of the same type is legitimate for the scalar lists
            // (ZKPoK: >= 2 scalars; Commitment: point + >= 2 scalars; PoK: 3 points + >= 4 scalars): everything else is forbidden
            let well_formed = match c.name {
                "ZKPoK" => x.len() >= 64 && x.len() % 32 == 0,
                "Commitment" => x.len() >= 48 + 64 && (x.len() - 48) % 32 == 0,
                "PoKSignature" => x.len() >= 144 + 128 && (x.len() - 144) % 32 == 0,
                _ => false,
            };
            check(ctx, c, suite, "truncated-scalars", &(cut / 32).to_string(), x, !well_formed);
            cut += 32;
        }
        check(ctx, c, suite, "empty", "-", &[], true);
    }
    // the same object in another representation, or glued to a copy of itself: wrong lengths and formats
    if c.fixed.is_none() {
        let mut alt: Vec<(String, Vec<u8>, bool)> = vec![];
        // every point slot replaced by its uncompressed form (the rest kept)
        let mut unc = vec![];
        let mut pos = 0usize;
        let mut any_point = false;
        for (off, kind, _) in c.slots.iter() {
            unc.extend_from_slice(&honest[pos..*off]);
            match kind {
                Slot::G1 => {
                    let p: Option<G1Affine> = G1Affine::from_compressed(&honest[*off..off + 48].try_into().unwrap()).into();
                    unc.extend_from_slice(&p.unwrap().to_uncompressed());
                    pos = off + 48;
                    any_point = true;
                }
                Slot::G2 => {
                    let p: Option<G2Affine> = G2Affine::from_compressed(&honest[*off..off + 96].try_into().unwrap()).into();
                    unc.extend_from_slice(&p.unwrap().to_uncompressed());
                    pos = off + 96;
                    any_point = true;
                }
                Slot::Sc => {
                    unc.extend_from_slice(&honest[*off..off + 32]);
                    pos = off + 32;
                }
            }
        }
        unc.extend_from_slice(&honest[pos..]);
        if any_point {
            let mut flagged = unc.clone();
            flagged[0] |= 0x80;
            alt.push(("uncompressed-points".into(), unc, true));
            alt.push(("uncompressed-points-with-compression-flag".into(), flagged, true));
        }
        let has_point = c.slots.iter().any(|s| !matches!(s.1, Slot::Sc));
        alt.push(("doubled".into(), [&honest[..], &honest[..]].concat(), has_point || c.slots.len() <= 1));
        alt.push(("zero-prefixed".into(), [&[0u8][..], &honest[..]].concat(), true));
        alt.push(("reversed".into(), honest.iter().rev().cloned().collect(), has_point));
        alt.push(("hex-text".into(), hex::encode(honest).into_bytes(), has_point || c.slots.len() <= 1));
        for (nm, x, must) in alt {
            check(ctx, c, suite, &format!("alt-{nm}"), "-", &x, must);
        }
    }
    // slot patterns
    for (si, (off, kind, forbid_neutral)) in c.slots.iter().enumerate() {
        match kind {
            Slot::Sc => {
                for (nm, pat, reject) in scalar_patterns() {
                    let mut x = honest.clone();
                    x[*off..off + 32].copy_from_slice(&pat);
                    let must = reject || (nm == "zero" && *forbid_neutral);
                    check(ctx, c, suite, &format!("scalar-{nm}"), &format!("slot{si}"), &x, must);
                }
            }
            Slot::G1 => {
                for (nm, pat, reject) in g1_patterns(&mut r, &honest[*off..off + 48]) {
                    let mut x = honest.clone();
                    x[*off..off + 48].copy_from_slice(&pat);
                    let must = reject || (nm == "infinity" && *forbid_neutral);
                    check(ctx, c, suite, &format!("g1-{nm}"), &format!("slot{si}"), &x, must);
                }
            }
            Slot::G2 => {
                for (nm, pat, reject) in g2_patterns(&mut r, &honest[*off..off + 96]) {
                    let mut x = honest.clone();
                    x[*off..off + 96].copy_from_slice(&pat);
                    let must = reject || (nm == "infinity" && *forbid_neutral);
                    check(ctx, c, suite, &format!("g2-{nm}"), &format!("slot{si}"), &x, must);
                }
            }
        }
    }
    if c.name == "PublicKeyCoordinates" {
        // identity in uncompressed form; flags; coordinate >= p; off-curve y
        let mut inf = vec![0u8; 192];
        inf[0] = 0x40;
        check(ctx, c, suite, "uncompressed-infinity", "-", &inf, true);
        check(ctx, c, suite, "all-zero", "-", &vec![0u8; 192], true);
        let mut x = honest.clone();
        x[0] |= 0x80;
        check(ctx, c, suite, "compression-flag-set", "-", &x, true);
        let mut x = honest.clone();
        x[0] |= 0x20;
        check(ctx, c, suite, "sort-flag-set", "-", &x, true);
        let p = hex::decode(P_BE).unwrap();
        for k in 0..4 {
            let mut x = honest.clone();
            x[48 * k..48 * (k + 1)].copy_from_slice(&p);
            check(ctx, c, suite, "coordinate=p", &k.to_string(), &x, true);
        }
        // a point of the curve outside the subgroup, uncompressed
        for _ in 0..200 {
            let mut b = rand_bytes(&mut r, 96);
            b[0] = 0x80 | (b[0] & 0x3f) % 0x1a;
            b[48] %= 0x1a;
            if let Some(pt) = Option::<G2Affine>::from(G2Affine::from_compressed_unchecked(&b.clone().try_into().unwrap())) {
                if !bool::from(pt.is_torsion_free()) {
                    check(ctx, c, suite, "non-subgroup", "-", &pt.to_uncompressed(), true);
                    break;
                }
            }
        }
    }
    ctx.sample(json!({"suite":suite,"codec":c.name,"honest":hx(honest),"classes":"honest, all single-bit flips, extensions/truncations 1..=64, scalar and point patterns per slot"}));
}

/// (1) round trips of API-produced objects through every codec incl. JSON
fn roundtrips<X: Sx>(ctx: &Ctx, idx: u64) {
    let mut r = ctx.rng("c09r", idx);
    for rep in 0..ctx.t(6, 40) {
        let l = rand_range(&mut r, 6);
        let m = rand_range(&mut r, 4);
        let (sk, pk) = keypair::<X>(&mut r);
        let msgs = gen_messages(&mut r, l, rep);
        let cm = gen_messages(&mut r, m, rep + 1);
        let case = format!("{}/roundtrip/L{}M{}/r{}", name::<X>(), l, m, rep);
        ctx.distinct(&case);
        let bad = |what: &str| ctx.violation(&format!("C09:roundtrip/{}", what), json!({"case":case}));
        macro_rules! json_rt {
            ($what:expr, $v:expr, $t:ty) => {{
                let js = ctx.call_plain(concat!("json/", $what), &case, || serde_json::to_string(&$v).unwrap()).value.unwrap();
                match ctx.call(concat!("json/", $what), &case, None, || serde_json::from_str::<$t>(&js)).value {
                    Some(v2) if v2 == $v => {}
                    _ => bad(concat!($what, "/json")),
                }
                // decoders that cannot lend out slices of their input: a Value tree and a reader
                match ctx.call(concat!("json-value/", $what), &case, None, || serde_json::from_value::<$t>(serde_json::to_value(&$v).unwrap())).value {
                    Some(v2) if v2 == $v => {}
                    _ => bad(concat!($what, "/json-value")),
                }
                match ctx.call(concat!("json-reader/", $what), &case, None, || serde_json::from_reader::<_, $t>(js.as_bytes())).value {
                    Some(v2) if v2 == $v => {}
                    _ => bad(concat!($what, "/json-reader")),
                }
            }};
        }
        if BBSplusPublicKey::from_bytes(&pk.to_bytes()).ok().as_ref() != Some(&pk) { bad("PublicKey/octets"); }
        let (x, y) = pk.to_coordinates();
        if BBSplusPublicKey::from_coordinates(&x, &y).ok().as_ref() != Some(&pk) { bad("PublicKey/coordinates"); }
        json_rt!("PublicKey", pk, BBSplusPublicKey);
        if BBSplusSecretKey::from_bytes(&sk.to_bytes()).ok().as_ref() != Some(&sk) { bad("SecretKey/octets"); }
        json_rt!("SecretKey", sk, BBSplusSecretKey);
        if sk.public_key() != pk { bad("SecretKey/public_key"); }
        let kp = Kp::<X>::generate(&rand_bytes(&mut r, 40), None, None).unwrap();
        json_rt!("KeyPair", kp, Kp<X>);
        let sig = Sig::<X>::sign(Some(&msgs), &sk, &pk, None).unwrap();
        if Sig::<X>::from_bytes(&sig.to_bytes()).ok().as_ref() != Some(&sig) { bad("Signature/octets"); }
        json_rt!("Signature", sig, Sig<X>);
        let d: Vec<usize> = (0..l).filter(|_| r.next_u32() % 2 == 0).collect();
        let proof = Pok::<X>::proof_gen(&pk, &sig.to_bytes(), None, Some(b"p"), Some(&msgs), Some(&d)).unwrap();
        if Pok::<X>::from_bytes(&proof.to_bytes()).ok().as_ref() != Some(&proof) { bad("PoKSignature/octets"); }
        json_rt!("PoKSignature", proof, Pok<X>);
        let (com, bf) = Com::<X>::commit(Some(&cm)).unwrap();
        if Com::<X>::from_bytes(&com.to_bytes()).ok().as_ref() != Some(&com) { bad("Commitment/octets"); }
        json_rt!("Commitment", com, Com<X>);
        if BlindFactor::from_bytes(&bf.to_bytes()).map(|b| b.to_bytes()).ok() != Some(bf.to_bytes()) { bad("BlindFactor/octets"); }
        let bsig = BSig::<X>::blind_sign(&sk, &pk, Some(&com.to_bytes()), None, Some(&msgs)).unwrap();
        if BSig::<X>::from_bytes(&bsig.to_bytes()).ok().as_ref() != Some(&bsig) { bad("BlindSignature/octets"); }
        json_rt!("BlindSignature", bsig, BSig<X>);
        let zk = BBSplusZKPoK::from_bytes(&com.to_bytes()[48..]).unwrap();
        if BBSplusZKPoK::from_bytes(&zk.to_bytes()).ok().as_ref() != Some(&zk) { bad("ZKPoK/octets"); }
        ctx.count("objects_round_tripped", 12);
    }
    // signature octets as an ARGUMENT (proof_gen / blind_proof_gen take a slice): only the exact 80 octets are a signature
    {
        let (sk, pk) = keypair::<X>(&mut r);
        let msgs = gen_messages(&mut r, 2, 0);
        let sig = Sig::<X>::sign(Some(&msgs), &sk, &pk, None).unwrap().to_bytes();
        let bsig = BSig::<X>::blind_sign(&sk, &pk, None, None, Some(&msgs)).unwrap().to_bytes();
        let case = format!("{}/signature-argument", name::<X>());
        ctx.distinct(&case);
        let mut variants: Vec<(String, Vec<u8>, Vec<u8>)> = vec![];
        for k in [1usize, 2, 16, 32, 48, 80] {
            variants.push((format!("trailing{k}"), [&sig[..], &vec![0u8; k][..]].concat(), [&bsig[..], &vec![0u8; k][..]].concat()));
            variants.push((format!("trailing-random{k}"), [&sig[..], &rand_bytes(&mut r, k)[..]].concat(), [&bsig[..], &rand_bytes(&mut r, k)[..]].concat()));
            variants.push((format!("truncated{k}"), sig[..80 - k].to_vec(), bsig[..80 - k].to_vec()));
            variants.push((format!("leading{k}"), [&vec![0u8; k][..], &sig[..]].concat(), [&vec![0u8; k][..], &bsig[..]].concat()));
        }
        for (nm, s1, s2) in variants {
            let o = ctx.call("proof_gen", &case, None, || Pok::<X>::proof_gen(&pk, &s1, None, None, Some(&msgs), Some(&[0])));
            if o.outcome.is_ok() {
                ctx.violation("C09:forbidden-accepted/Signature-argument/proof_gen", json!({"case":case,"variant":nm,"octets":hx_full(&s1)}));
            }
            let o = ctx.call("blind_proof_gen", &case, None, || Pok::<X>::blind_proof_gen(&pk, &s2, None, None, Some(&msgs), None, Some(&[0]), None, None));
            if o.outcome.is_ok() {
                ctx.violation("C09:forbidden-accepted/Signature-argument/blind_proof_gen", json!({"case":case,"variant":nm,"octets":hx_full(&s2)}));
            }
        }
        // control: the exact octets are accepted
        if !ctx.call("proof_gen", &case, None, || Pok::<X>::proof_gen(&pk, &sig, None, None, Some(&msgs), Some(&[0]))).outcome.is_ok() {
            ctx.inconclusive("C09: proof_gen refused an honest signature (C03's business)");
        }
        if !ctx.call("blind_proof_gen", &case, None, || Pok::<X>::blind_proof_gen(&pk, &bsig, None, None, Some(&msgs), None, Some(&[0]), None, None)).outcome.is_ok() {
            ctx.inconclusive("C09: blind_proof_gen refused an honest blind signature (C05's business)");
        }
    }
    // volume: many distinct objects through the octet codecs only (value shapes that occur once in a few hundred objects)
    let (sk, pk) = keypair::<X>(&mut r);
    let msgs = gen_messages(&mut r, 3, 0);
    let case = format!("{}/roundtrip/volume", name::<X>());
    ctx.distinct(&case);
    let bad = |what: &str, b: &[u8]| ctx.violation(&format!("C09:roundtrip/{}", what), json!({"case":case,"octets":hx_full(b)}));
    for k in 0..ctx.t(300usize, 2500usize) {
        let hdr = (k as u64).to_le_bytes();
        let sig = Sig::<X>::sign(Some(&msgs), &sk, &pk, Some(&hdr)).unwrap();
        let sb = sig.to_bytes();
        match ctx.call("decode/Signature", &case, None, || Sig::<X>::from_bytes(&sb)).value {
            Some(s2) if s2 == sig && s2.to_bytes() == sb => {}
            _ => bad("Signature/octets", &sb),
        }
        let proof = Pok::<X>::proof_gen(&pk, &sb, Some(&hdr), None, Some(&msgs), Some(&[k % 3])).unwrap();
        let pb = proof.to_bytes();
        match ctx.call("decode/PoKSignature", &case, None, || Pok::<X>::from_bytes(&pb)).value {
            Some(p2) if p2 == proof && p2.to_bytes() == pb => {}
            _ => bad("PoKSignature/octets", &pb),
        }
        let (com, bf) = Com::<X>::commit(Some(&msgs[..k % 3])).unwrap();
        let cb = com.to_bytes();
        match ctx.call("decode/Commitment", &case, None, || Com::<X>::from_bytes(&cb)).value {
            Some(c2) if c2 == com && c2.to_bytes() == cb => {}
            _ => bad("Commitment/octets", &cb),
        }
        let bb = bf.to_bytes();
        if BlindFactor::from_bytes(&bb).map(|b| b.to_bytes()).ok() != Some(bb) { bad("BlindFactor/octets", &bb); }
        let kp = Kp::<X>::generate(&rand_bytes(&mut r, 32), None, None).unwrap();
        let (skb, pkb) = (kp.private_key().to_bytes(), kp.public_key().to_bytes());
        if BBSplusSecretKey::from_bytes(&skb).map(|x| x.to_bytes()).ok() != Some(skb) { bad("SecretKey/octets", &skb); }
        if BBSplusPublicKey::from_bytes(&pkb).map(|x| x.to_bytes()).ok() != Some(pkb) { bad("PublicKey/octets", &pkb); }
        ctx.count("objects_round_tripped", 6);
    }
    let _ = (G2Projective::IDENTITY, Scalar::ZERO);
}

pub fn scenarios(ctx: &Ctx) -> Vec<Scenario> {
    let mut v = Vec::new();
    for rep in 0..ctx.t(1u64, 6u64) {
        for which in 0..10usize {
            let i = rep * 100 + which as u64;
            v.push(scenario(format!("sweep/sha/{which}"), move |c| codec_sweep::<Sha>(c, i, which)));
            v.push(scenario(format!("sweep/shake/{which}"), move |c| codec_sweep::<Shake>(c, i + 50, which)));
        }
    }
    for rep in 0..ctx.t(2u64, 8u64) {
        v.push(scenario("roundtrip/sha", move |c| roundtrips::<Sha>(c, 1000 + rep)));
        v.push(scenario("roundtrip/shake", move |c| roundtrips::<Shake>(c, 2000 + rep)));
    }
    v
}

//! The reference implementation must earn its role: reproduce every fixture of the repository
//! byte for byte (both suites, plain and blind) before it is used as an oracle.

use crate::refimpl::{self as r, SuiteId};
use bls12_381_plus::Scalar;
use serde_json::Value;
use std::path::Path;

fn load(p: &Path) -> Value {
    serde_json::from_str(&std::fs::read_to_string(p).unwrap_or_else(|e| panic!("{}: {}", p.display(), e)))
        .unwrap()
}
fn hexs(v: &Value) -> Vec<u8> {
    hex::decode(v.as_str().unwrap_or("")).unwrap()
}
fn hexlist(v: &Value) -> Vec<Vec<u8>> {
    v.as_array().map(|a| a.iter().map(hexs).collect()).unwrap_or_default()
}
fn scalar(v: &Value) -> Scalar {
    r::octets_to_scalar(&hexs(v)).unwrap()
}
fn indexed(v: &Value) -> (Vec<usize>, Vec<Vec<u8>>) {
    let mut pairs: Vec<(usize, Vec<u8>)> = v
        .as_object()
        .map(|o| o.iter().map(|(k, x)| (k.parse().unwrap(), hexs(x))).collect())
        .unwrap_or_default();
    pairs.sort_by_key(|p| p.0);
    (pairs.iter().map(|p| p.0).collect(), pairs.into_iter().map(|p| p.1).collect())
}

pub struct Report {
    pub checks: usize,
    pub mismatches: Vec<String>,
}

pub fn validate(repo: &str) -> Report {
    let mut rep = Report { checks: 0, mismatches: vec![] };
    let mut chk = |name: String, ok: bool| {
        rep.checks += 1;
        if !ok {
            rep.mismatches.push(name);
        }
    };
    for (s, dir) in [(SuiteId::Sha, "bls12-381-sha-256"), (SuiteId::Shake, "bls12-381-shake-256")] {
        let base = Path::new(repo).join("fixture_data").join(dir);
        // key pair
        let k = load(&base.join("keypair.json"));
        let sk = r::key_gen(s, &hexs(&k["keyMaterial"]), &hexs(&k["keyInfo"]), Some(&hexs(&k["keyDst"]))).unwrap();
        chk(format!("{dir}/keypair.sk"), r::scalar_be(&sk).to_vec() == hexs(&k["keyPair"]["secretKey"]));
        chk(format!("{dir}/keypair.pk"), r::g2_c(&r::sk_to_pk(&sk)).to_vec() == hexs(&k["keyPair"]["publicKey"]));
        // h2s
        let h = load(&base.join("h2s.json"));
        chk(
            format!("{dir}/h2s"),
            r::scalar_be(&r::hash_to_scalar(s, &hexs(&h["message"]), &hexs(&h["dst"])).unwrap()).to_vec() == hexs(&h["scalar"]),
        );
        // map message to scalar
        let m = load(&base.join("MapMessageToScalarAsHash.json"));
        for (i, c) in m["cases"].as_array().unwrap().iter().enumerate() {
            let got = r::messages_to_scalars(s, &[hexs(&c["message"])], &s.api_id()).unwrap();
            chk(format!("{dir}/map{i}"), r::scalar_be(&got[0]).to_vec() == hexs(&c["scalar"]));
        }
        // generators
        let g = load(&base.join("generators.json"));
        let want: Vec<Vec<u8>> = std::iter::once(hexs(&g["Q1"])).chain(hexlist(&g["MsgGenerators"])).collect();
        let got = r::create_generators(s, want.len(), &s.api_id());
        chk(format!("{dir}/P1"), r::g1_c(&s.p1()).to_vec() == hexs(&g["P1"]));
        for (i, w) in want.iter().enumerate() {
            chk(format!("{dir}/gen{i}"), &r::g1_c(&got[i]).to_vec() == w);
        }
        // mocked rng
        let mr = load(&base.join("mockedRng.json"));
        let sc = r::seeded_random_scalars(s, &hexs(&mr["seed"]), &hexs(&mr["dst"]), mr["count"].as_u64().unwrap() as usize);
        for (i, w) in hexlist(&mr["mockedScalars"]).iter().enumerate() {
            chk(format!("{dir}/mock{i}"), &r::scalar_be(&sc[i]).to_vec() == w);
        }
        // signatures
        for i in 1..=10 {
            let f = load(&base.join(format!("signature/signature{:03}.json", i)));
            let sk = scalar(&f["signerKeyPair"]["secretKey"]);
            let pk = hexs(&f["signerKeyPair"]["publicKey"]);
            let msgs = hexlist(&f["messages"]);
            let header = hexs(&f["header"]);
            let sig = hexs(&f["signature"]);
            let valid = f["result"]["valid"].as_bool().unwrap();
            chk(format!("{dir}/sig{i}.verify"), r::verify(s, &pk, &sig, &header, &msgs) == valid);
            let w = r::octets_to_pubkey(&pk).unwrap();
            let mine = r::sign(s, &sk, &w, &header, &msgs).unwrap();
            chk(format!("{dir}/sig{i}.sign"), (mine.to_vec() == sig) == valid);
        }
        // proofs
        let mock_dst = [&s.api_id()[..], b"MOCK_RANDOM_SCALARS_DST_"].concat();
        let seed = b"3.141592653589793238462643383279";
        for i in 1..=15 {
            let f = load(&base.join(format!("proof/proof{:03}.json", i)));
            let pk = hexs(&f["signerPublicKey"]);
            let msgs = hexlist(&f["messages"]);
            let header = hexs(&f["header"]);
            let ph = hexs(&f["presentationHeader"]);
            let sig = hexs(&f["signature"]);
            let di: Vec<usize> = f["disclosedIndexes"].as_array().unwrap().iter().map(|x| x.as_u64().unwrap() as usize).collect();
            let proof = hexs(&f["proof"]);
            let valid = f["result"]["valid"].as_bool().unwrap();
            let dm: Vec<Vec<u8>> = di.iter().map(|&j| msgs[j].clone()).collect();
            chk(format!("{dir}/proof{i}.verify"), r::proof_verify(s, &pk, &proof, &header, &ph, &dm, &di) == valid);
            let w = r::octets_to_pubkey(&pk).unwrap();
            let u = msgs.len() - di.len();
            let rnd = r::seeded_random_scalars(s, seed, &mock_dst, 5 + u);
            let mut dd = di.clone();
            dd.sort();
            dd.dedup();
            let u = msgs.len() - dd.len();
            let rnd = r::seeded_random_scalars(s, seed, &mock_dst, 5 + u);
            let mine = r::proof_gen(s, &w, &sig, &header, &ph, &msgs, &di, &rnd);
            chk(format!("{dir}/proof{i}.gen"), mine.map(|m| m == proof).unwrap_or(false) == valid);
        }

        // ---------------- blind fixtures
        let bbase = Path::new(repo).join("fixture_data_blind").join(dir);
        let allm = load(&Path::new(repo).join("fixture_data_blind").join("messages.json"));
        let g = load(&bbase.join("generators.json"));
        let gg = &g["generators"];
        let want: Vec<Vec<u8>> = std::iter::once(hexs(&gg["Q1"])).chain(hexlist(&gg["MsgGenerators"])).collect();
        let got = r::create_generators(s, want.len(), gg["api_id"].as_str().unwrap().as_bytes());
        for (i, w) in want.iter().enumerate() {
            chk(format!("{dir}/blind.gen{i}"), &r::g1_c(&got[i]).to_vec() == w);
        }
        let commit_dst = [&s.api_id()[..], b"COMMIT_MOCK_RANDOM_SCALARS_DST_"].concat();
        let proof_dst = [&s.api_id()[..], b"PROOF_MOCK_RANDOM_SCALARS_DST_"].concat();
        for i in 1..=2 {
            let f = load(&bbase.join(format!("commit/commit{:03}.json", i)));
            let cm = hexlist(&f["committedMessages"]);
            let rnd = r::seeded_random_scalars(s, seed, &commit_dst, cm.len() + 2);
            let (cwp, blind) = r::commit(s, &cm, &rnd).unwrap();
            chk(format!("{dir}/commit{i}.bytes"), cwp == hexs(&f["commitmentWithProof"]));
            chk(format!("{dir}/commit{i}.blind"), r::scalar_be(&blind).to_vec() == hexs(&f["proverBlind"]));
            chk(format!("{dir}/commit{i}.validate"), r::validate_commit(s, &cwp).is_ok() == f["result"]["valid"].as_bool().unwrap());
        }
        for i in 1..=5 {
            let f = load(&bbase.join(format!("signature/signature{:03}.json", i)));
            let sk = scalar(&f["signerKeyPair"]["secretKey"]);
            let pk = hexs(&f["signerKeyPair"]["publicKey"]);
            let w = r::octets_to_pubkey(&pk).unwrap();
            let msgs = hexlist(&f["messages"]);
            let cm = hexlist(&f["committedMessages"]);
            let header = hexs(&f["header"]);
            let cwp = f.get("commitmentWithProof").map(hexs).unwrap_or_default();
            let blind = f.get("proverBlind").filter(|v| v.is_string()).map(scalar).unwrap_or(Scalar::ZERO);
            let sig = hexs(&f["signature"]);
            let valid = f["result"]["valid"].as_bool().unwrap();
            let mine = r::blind_sign(s, &sk, &w, &cwp, &header, &msgs);
            chk(format!("{dir}/blindsig{i}.sign"), mine.map(|m| m.to_vec() == sig).unwrap_or(false) == valid);
            chk(format!("{dir}/blindsig{i}.verify"), r::verify_blind_sign(s, &pk, &sig, &header, &msgs, &cm, &blind) == valid);
        }
        for i in 1..=8 {
            let f = load(&bbase.join(format!("proof/proof{:03}.json", i)));
            let pk = hexs(&f["signerPublicKey"]);
            let w = r::octets_to_pubkey(&pk).unwrap();
            let msgs = hexlist(&allm["messages"]);
            let (dci, dcm) = indexed(&f["revealedCommittedMessages"]);
            let (di, dm) = indexed(&f["revealedMessages"]);
            let cm = if f["revealedCommittedMessages"].is_object() { hexlist(&allm["committedMessages"]) } else { vec![] };
            let blind = f.get("proverBlind").filter(|v| v.is_string()).map(scalar).unwrap_or(Scalar::ZERO);
            let header = hexs(&f["header"]);
            let ph = hexs(&f["presentationHeader"]);
            let sig = hexs(&f["signature"]);
            let proof = hexs(&f["proof"]);
            let valid = f["result"]["valid"].as_bool().unwrap();
            let u = msgs.len() + 1 + cm.len() - di.len() - dci.len();
            let rnd = r::seeded_random_scalars(s, seed, &proof_dst, 5 + u);
            let mine = r::blind_proof_gen(s, &w, &sig, &header, &ph, &msgs, &cm, &di, &dci, &blind, &rnd);
            chk(format!("{dir}/blindproof{i}.gen"), mine.map(|m| m == proof).unwrap_or(false));
            chk(
                format!("{dir}/blindproof{i}.verify"),
                r::blind_proof_verify(s, &pk, &proof, &header, &ph, msgs.len(), &dm, &dcm, &di, &dci) == valid,
            );
        }
    }
    rep
}

//! Thin typed access to the library under test for both ciphersuites.

#![allow(dead_code)]

use crate::common::{hx, Ctx};
use crate::refimpl::SuiteId;
use rand::RngCore;
use zkryptium::bbsplus::ciphersuites::{BbsCiphersuite, Bls12381Sha256, Bls12381Shake256};
pub use zkryptium::bbsplus::commitment::BlindFactor;
pub use zkryptium::bbsplus::generators::Generators;
pub use zkryptium::bbsplus::keys::{BBSplusPublicKey, BBSplusSecretKey};
use zkryptium::keys::pair::KeyPair;
use zkryptium::schemes::algorithms::BBSplus;
use zkryptium::schemes::generics::{BlindSignature, Commitment, PoKSignature, Signature};

pub trait Sx: 'static + Send + Sync {
    type CS: BbsCiphersuite + Clone + std::fmt::Debug + Send + Sync;
    const ID: SuiteId;
}
pub struct Sha;
pub struct Shake;
impl Sx for Sha {
    type CS = Bls12381Sha256;
    const ID: SuiteId = SuiteId::Sha;
}
impl Sx for Shake {
    type CS = Bls12381Shake256;
    const ID: SuiteId = SuiteId::Shake;
}

pub type Sig<X> = Signature<BBSplus<<X as Sx>::CS>>;
pub type BSig<X> = BlindSignature<BBSplus<<X as Sx>::CS>>;
pub type Pok<X> = PoKSignature<BBSplus<<X as Sx>::CS>>;
pub type Com<X> = Commitment<BBSplus<<X as Sx>::CS>>;
pub type Kp<X> = KeyPair<BBSplus<<X as Sx>::CS>>;

pub fn name<X: Sx>() -> &'static str {
    X::ID.name()
}

/// Key pair from seeded key material through the real KeyGen.
/// key generation as a monitored call, over the whole valid range of its inputs (key material 32..=64 octets, key_info
/// absent / empty / 1 .. 65535 octets - the largest the drafts allow, key_dst absent): a refusal or panic is a violation
/// of the calling property's completeness ("for every key pair").
pub fn keypair_monitored<X: Sx>(ctx: &Ctx, r: &mut impl RngCore, violation: &str) -> Option<(BBSplusSecretKey, BBSplusPublicKey)> {
    let n = 32 + (r.next_u32() % 33) as usize;
    let mut ikm = vec![0u8; n];
    r.fill_bytes(&mut ikm);
    let info_len = [0usize, 0, 1, 17, 300, 255, 256, 65534, 65535][(r.next_u32() % 9) as usize];
    let mut info = vec![0u8; info_len];
    r.fill_bytes(&mut info);
    let info_opt: Option<&[u8]> = if info_len == 0 && r.next_u32() % 2 == 0 { None } else { Some(&info) };
    let case = format!("{}/ikm{}/key_info{}", name::<X>(), n, if info_opt.is_none() { "None".to_string() } else { info_len.to_string() });
    let m = ctx.call("KeyPair::generate", &case, None, || Kp::<X>::generate(&ikm, info_opt, None));
    match m.value {
        Some(kp) => Some(kp.into_parts()),
        None => {
            ctx.violation(violation, serde_json::json!({"case":case,"outcome":m.outcome.short(),"ikm":hx(&ikm)}));
            None
        }
    }
}

pub fn keypair<X: Sx>(r: &mut impl RngCore) -> (BBSplusSecretKey, BBSplusPublicKey) {
    let n = 32 + (r.next_u32() % 33) as usize;
    let mut ikm = vec![0u8; n];
    r.fill_bytes(&mut ikm);
    // key_info lengths incl. the largest one the drafts allow (its 2-octet length prefix is then ff ff)
    let info_len = [0usize, 0, 1, 17, 300, 255, 256, 65535][(r.next_u32() % 8) as usize];
    let mut info = vec![0u8; info_len];
    r.fill_bytes(&mut info);
    let kp = Kp::<X>::generate(&ikm, if info_len == 0 && r.next_u32() % 2 == 0 { None } else { Some(&info) }, None)
        .expect("keygen");
    let (sk, pk) = kp.into_parts();
    (sk, pk)
}

/// Same secret scalar installed for any suite (worst case for domain separation).
pub fn key_from_scalar(sk: bls12_381_plus::Scalar) -> (BBSplusSecretKey, BBSplusPublicKey) {
    let sk = BBSplusSecretKey(sk);
    let pk = sk.public_key();
    (sk, pk)
}

/// Run a generic closure-like macro body for both suites.
#[macro_export]
macro_rules! both_suites {
    ($f:ident ( $($a:expr),* )) => {{
        $f::<$crate::api::Sha>($($a),*);
        $f::<$crate::api::Shake>($($a),*);
    }};
}

/// Prior history on the current thread: a few operations of other sizes and interfaces before a scenario,
/// so that state kept between calls by the library (caches keyed too coarsely, buffers reused) is in place.
pub fn history_warmup<X: Sx>(ctx: &crate::common::Ctx, r: &mut impl RngCore, around: usize) {
    use crate::common::*;
    let (sk, pk) = keypair::<X>(r);
    let sizes = [around / 2, around.saturating_sub(1), around + 1, (r.next_u32() % 9) as usize];
    for (k, &n) in sizes.iter().enumerate() {
        if n > 300 {
            continue;
        }
        let msgs = gen_messages(r, n, k);
        let fuel = Some(n as u64 + 80);
        if let Some(s) = ctx.call("sign", "history", fuel, || Sig::<X>::sign(Some(&msgs), &sk, &pk, None)).value {
            let _ = ctx.call("verify", "history", fuel, || s.verify(&pk, Some(&msgs), None));
            if k % 2 == 0 {
                let d: Vec<usize> = (0..n).step_by(2).collect();
                let _ = ctx.call("proof_gen", "history", fuel, || Pok::<X>::proof_gen(&pk, &s.to_bytes(), None, None, Some(&msgs), Some(&d)));
            }
        }
        if k == 1 {
            let cm = gen_messages(r, n.min(6), k);
            if let Some((c, _)) = ctx.call("commit", "history", fuel, || Com::<X>::commit(Some(&cm))).value {
                let _ = ctx.call("blind_sign", "history", fuel, || BSig::<X>::blind_sign(&sk, &pk, Some(&c.to_bytes()), None, Some(&msgs)));
            }
        }
    }
}

/// Run `f` on a newly spawned thread (no thread-local history at all) and return its result. Verifiers and
/// holders normally live in other threads / processes than the signer: outputs must not depend on what the
/// producing thread did before.
pub fn on_fresh_thread<T: Send>(f: impl FnOnce() -> T + Send) -> T {
    let scn = crate::common::current_scenario();
    std::thread::scope(|sc| {
        sc.spawn(move || {
            crate::common::set_scenario(&scn);
            f()
        })
        .join()
        .expect("fresh thread panicked")
    })
}

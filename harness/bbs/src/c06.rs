//! C06 — Blind BBS soundness: bad commitments are refused, blind artefacts are bound.

use crate::api::*;
use crate::common::*;
use bls12_381_plus::G2Projective;
use rand::RngCore;
use serde_json::json;

fn not_ok(ctx: &Ctx, kind: &str, case: &str, out: &Outcome, detail: serde_json::Value) {
    ctx.distinct(case);
    if out.is_ok() {
        ctx.violation(&format!("C06:accepted/{}", kind), json!({"case":case,"detail":detail}));
    }
    if out.is_panic() {
        ctx.count("panics_seen(counted as not accepted; C08 judges them)", 1);
    }
}

fn one<X: Sx, Y: Sx>(ctx: &Ctx, idx: u64, l: usize, m: usize, all_flips: bool) {
    let mut r = ctx.rng("c06", idx);
    history_warmup::<X>(ctx, &mut r, (l + m).min(40));
    let (sk, pk) = keypair::<X>(&mut r);
    let msgs = gen_messages(&mut r, l, 0);
    let cm = gen_messages(&mut r, m, 0);
    let hdr = Hdr::gen(&mut r, &[1, 16]);
    let ho = hdr.as_opt();
    let base = format!("{}/L{}/M{}", name::<X>(), l, m);
    let Some((com, blind)) = ctx.call("commit", &base, None, || Com::<X>::commit(Some(&cm))).value else {
        ctx.inconclusive("C06: honest commit failed (C05's business)");
        return;
    };
    let cwp = com.to_bytes();
    let Some(bsig) = ctx.call("blind_sign", &base, None, || BSig::<X>::blind_sign(&sk, &pk, Some(&cwp), ho, Some(&msgs))).value else {
        ctx.inconclusive("C06: honest blind_sign failed (C05's business)");
        return;
    };
    if !ctx.call("verify_blind_sign", &base, None, || bsig.verify_blind_sign(&pk, ho, Some(&msgs), Some(&cm), Some(&blind))).outcome.is_ok() {
        ctx.inconclusive("C06: honest blind signature did not verify (C05's business)");
        return;
    }
    // ------------------------------------------------ 1. the signer refuses bad commitments
    let sign_with = |kind: &str, pos: String, c: &[u8]| {
        let case = format!("{}/commit-{}/{}", base, kind, pos);
        let o = ctx.call("blind_sign", &case, None, || BSig::<X>::blind_sign(&sk, &pk, Some(c), ho, Some(&msgs)));
        not_ok(ctx, &format!("commitment-{}", kind), &case, &o.outcome, json!({"commitment":hx_full(c),"honest_commitment":hx_full(&cwp)}));
    };
    let nbits = cwp.len() * 8;
    let flips: Vec<usize> = if all_flips { (0..nbits).collect() } else { (0..64).map(|_| rand_range(&mut r, nbits)).collect() };
    for b in flips {
        let mut c = cwp.clone();
        c[b / 8] ^= 1 << (b % 8);
        sign_with("bitflip", format!("{b}"), &c);
    }
    if all_flips {
        ctx.count("commitments_with_all_bit_flips", 1);
    }
    // proof made for other committed messages (same count): point of one + proof of another
    let mut cm2 = cm.clone();
    if m > 0 {
        cm2[0] = rand_bytes(&mut r, 11);
    }
    if let Some((com2, _)) = ctx.call("commit", &base, None, || Com::<X>::commit(Some(&cm2))).value {
        let c2 = com2.to_bytes();
        let mut mix = cwp[..48].to_vec();
        mix.extend_from_slice(&c2[48..]);
        sign_with("point-of-A-proof-of-B", "-".into(), &mix);
        let mut mix = c2[..48].to_vec();
        mix.extend_from_slice(&cwp[48..]);
        sign_with("point-of-B-proof-of-A", "-".into(), &mix);
    }
    // special commitment points with a proof that was not made for them: the identity, the generators Q2 / J_1,
    // the negated commitment
    {
        let mut inf = [0u8; 48];
        inf[0] = 0xc0;
        let bg = crate::refimpl::blind_generators(X::ID, m + 1);
        let neg = {
            let mut x = cwp[..48].to_vec();
            x[0] ^= 0x20;
            x
        };
        let specials: Vec<(&str, Vec<u8>)> = vec![
            ("identity", inf.to_vec()),
            ("Q2", crate::refimpl::g1_c(&bg[0]).to_vec()),
            ("last-blind-generator", crate::refimpl::g1_c(bg.last().unwrap()).to_vec()),
            ("negated", neg),
        ];
        for (nm, pt) in specials {
            let mut c = pt.clone();
            c.extend_from_slice(&cwp[48..]);
            sign_with("special-point-with-foreign-proof", format!("{nm}/honest-scalars"), &c);
            let mut c = pt.clone();
            for _ in 0..m + 2 {
                c.extend_from_slice(&crate::refimpl::scalar_be(&crate::c04::rand_scalar(&mut r)));
            }
            sign_with("special-point-with-foreign-proof", format!("{nm}/random-scalars"), &c);
            let mut c = pt.clone();
            c.extend(vec![0u8; 32 * (m + 2)]);
            if nm != "identity" {
                // (identity with the all-zero proof is a VALID proof of the all-zero opening: not asserted)
                sign_with("special-point-with-foreign-proof", format!("{nm}/zero-scalars"), &c);
            }
        }
    }
    // a commitment shifted by a small-order point (outside the prime-order subgroup) with its Fiat-Shamir
    // challenge ground so that the verification equation still holds (the torsion part must vanish in C*(-c))
    if let Some(t3) = crate::c04::order3_point(&mut r) {
        use crate::refimpl as rf;
        use group::Curve;
        let api = X::ID.blind_api_id();
        let gens = rf::blind_generators(X::ID, m + 1);
        let cms = rf::messages_to_scalars(X::ID, &cm, &api).unwrap();
        let mut built = false;
        for _ in 0..40 {
            let blind2 = crate::c04::rand_scalar(&mut r);
            let st = crate::c04::rand_scalar(&mut r);
            let mt: Vec<bls12_381_plus::Scalar> = (0..m).map(|_| crate::c04::rand_scalar(&mut r)).collect();
            let mut c = gens[0] * blind2;
            let mut cbar = gens[0] * st;
            for i in 0..m {
                c += gens[1 + i] * cms[i];
                cbar += gens[1 + i] * mt[i];
            }
            let tainted = c + t3;
            // challenge as the verifier will recompute it (over the tainted point)
            let dst = [&api[..], b"H2S_"].concat();
            let mut v = rf::i2osp8(m as u64).to_vec();
            for g in &gens {
                v.extend_from_slice(&rf::g1_c(g));
            }
            v.extend_from_slice(&tainted.to_affine().to_compressed());
            v.extend_from_slice(&rf::g1_c(&cbar));
            let ch = rf::hash_to_scalar(X::ID, &v, &dst).unwrap();
            // the verifier multiplies the commitment by -c = r - c (r = 1 mod 3): the order-3 part vanishes iff c = 1 mod 3
            if ch.to_be_bytes().iter().fold(0u32, |a, b| (a * 256 + *b as u32) % 3) != 1 {
                continue;
            }
            let mut out = tainted.to_affine().to_compressed().to_vec();
            out.extend_from_slice(&rf::scalar_be(&(st + blind2 * ch)));
            for i in 0..m {
                out.extend_from_slice(&rf::scalar_be(&(mt[i] + cms[i] * ch)));
            }
            out.extend_from_slice(&rf::scalar_be(&ch));
            sign_with("torsion-tainted-point-with-ground-challenge", "-".into(), &out);
            built = true;
            break;
        }
        if built {
            ctx.count("torsion_tainted_commitments_built", 1);
        }
    }
    // commitment made under the other suite
    if let Some((comy, _)) = ctx.call("commit", &base, None, || Com::<Y>::commit(Some(&cm))).value {
        sign_with("other-suite", "-".into(), &comy.to_bytes());
    }
    // truncation / extension by whole scalars
    // every whole-scalar truncation, down to the bare commitment point
    for k in 1..=(cwp.len() - 48) / 32 {
        sign_with("truncated", format!("{k}"), &cwp[..cwp.len() - 32 * k]);
    }
    for k in 1..=3usize {
        for (fill, nm) in [
            (vec![0u8; 32], "zero"),
            (crate::refimpl::scalar_be(&crate::c04::rand_scalar(&mut r)).to_vec(), "random"),
            (cwp[cwp.len() - 32..].to_vec(), "copy"),
            (vec![0xffu8; 32], "noncanonical-ff"),
            (crate::c04::R_BE.to_vec(), "noncanonical-r"),
        ] {
            let mut c = cwp.clone();
            for _ in 0..k {
                c.extend_from_slice(&fill);
            }
            sign_with("extended-after", format!("{k}{nm}"), &c);
            let mut c = cwp[..cwp.len() - 32].to_vec();
            for _ in 0..k {
                c.extend_from_slice(&fill);
            }
            c.extend_from_slice(&cwp[cwp.len() - 32..]);
            sign_with("extended-before-challenge", format!("{k}{nm}"), &c);
        }
    }
    // every scalar of the commitment proof re-encoded as value + r
    {
        let mut at = 48;
        while at + 32 <= cwp.len() {
            if let Some(a) = crate::c04::alias_plus_r(&cwp[at..at + 32]) {
                let mut c = cwp.clone();
                c[at..at + 32].copy_from_slice(&a);
                sign_with("scalar-plus-r", format!("{}", (at - 48) / 32), &c);
            }
            at += 32;
        }
    }
    // a non-canonical word inserted at every 32-byte boundary after the commitment point; stray octets
    for fill in [[0xffu8; 32], crate::c04::R_BE] {
        let mut at = 48;
        while at <= cwp.len() {
            let mut c = cwp[..at].to_vec();
            c.extend_from_slice(&fill);
            c.extend_from_slice(&cwp[at..]);
            sign_with("noncanonical-word-inserted", format!("{}", (at - 48) / 32), &c);
            at += 32;
        }
    }
    for (k, b) in [(1usize, 0u8), (1, 0xff), (7, 0x55), (16, 0), (31, 0), (31, 0xff), (33, 1)] {
        let mut c = cwp.clone();
        c.extend(std::iter::repeat(b).take(k));
        sign_with("extended-bytes", format!("{k}x{b:02x}"), &c);
    }
    // ------------------------------------------------ 2. verify_blind_sign is bound to its inputs
    let vb = |kind: &str, pos: String, pk_: &BBSplusPublicKey, h: Option<&[u8]>, ms: &[Vec<u8>], cs: &[Vec<u8>], bf: Option<&BlindFactor>| {
        let case = format!("{}/vbs-{}/{}", base, kind, pos);
        let o = ctx.call("verify_blind_sign", &case, None, || bsig.verify_blind_sign(pk_, h, Some(ms), Some(cs), bf));
        not_ok(ctx, &format!("verify_blind_sign/{}", kind), &case, &o.outcome, json!({"messages":msgs_json(ms),"committed":msgs_json(cs),"header":h.map(hx)}));
    };
    for (which, list) in [("signer", &msgs), ("committed", &cm)] {
        let positions: Vec<usize> = if list.len() <= 8 { (0..list.len()).collect() } else { vec![0, 1, list.len() / 2, 64.min(list.len() - 1), list.len() - 2, list.len() - 1] };
        for i in positions {
            let edits: Vec<(&str, Vec<Vec<u8>>)> = vec![
                ("altered", { let mut x = list.clone(); if x[i].is_empty() { x[i].push(1) } else { x[i][0] ^= 1 }; x }),
                ("removed", { let mut x = list.clone(); x.remove(i); x }),
                ("duplicated", { let mut x = list.clone(); x.insert(i, list[i].clone()); x }),
                ("inserted", { let mut x = list.clone(); x.insert(i, b"new".to_vec()); x }),
            ];
            for (k, e) in edits {
                if &e == list {
                    continue;
                }
                if which == "signer" {
                    vb(&format!("signer-msg-{k}"), format!("{i}"), &pk, ho, &e, &cm, Some(&blind));
                } else {
                    vb(&format!("committed-msg-{k}"), format!("{i}"), &pk, ho, &msgs, &e, Some(&blind));
                }
            }
            for j in (i + 1..list.len()).take(6) {
                if list[i] != list[j] {
                    let mut x = list.clone();
                    x.swap(i, j);
                    if which == "signer" {
                        vb("signer-msgs-swapped", format!("{i}-{j}"), &pk, ho, &x, &cm, Some(&blind));
                    } else {
                        vb("committed-msgs-swapped", format!("{i}-{j}"), &pk, ho, &msgs, &x, Some(&blind));
                    }
                }
            }
        }
        let mut x = list.clone();
        x.push(b"extra".to_vec());
        if which == "signer" {
            vb("signer-msg-appended", "-".into(), &pk, ho, &x, &cm, Some(&blind));
        } else {
            vb("committed-msg-appended", "-".into(), &pk, ho, &msgs, &x, Some(&blind));
        }
    }
    // a message moved across the two lists
    if l > 0 {
        let mut c2 = vec![msgs[l - 1].clone()];
        c2.extend(cm.iter().cloned());
        vb("msg-moved-signer->committed", "-".into(), &pk, ho, &msgs[..l - 1].to_vec(), &c2, Some(&blind));
    }
    if m > 0 {
        let mut s2 = msgs.clone();
        s2.push(cm[0].clone());
        vb("msg-moved-committed->signer", "-".into(), &pk, ho, &s2, &cm[1..].to_vec(), Some(&blind));
    }
    // blinding factor
    vb("blind-other", "-".into(), &pk, ho, &msgs, &cm, Some(&BlindFactor::random()));
    vb("blind-zero", "-".into(), &pk, ho, &msgs, &cm, Some(&BlindFactor::from_bytes(&[0u8; 32]).unwrap()));
    vb("blind-absent", "-".into(), &pk, ho, &msgs, &cm, None);
    {
        let mut b = blind.to_bytes();
        b[31] ^= 1;
        if let Ok(bf) = BlindFactor::from_bytes(&b) {
            vb("blind-bitflip", "-".into(), &pk, ho, &msgs, &cm, Some(&bf));
        }
    }
    // which of the two optional arguments are present: the signature verifies only for the spellings of the truth.
    // Grid over committed in {None, Some([]), Some(cm), Some(fake)} x blind in {None, Some(zero), Some(blind), Some(random)},
    // for this signature and for one issued WITHOUT a commitment over the same signer messages.
    {
        let zero = BlindFactor::from_bytes(&[0u8; 32]).unwrap();
        let other = BlindFactor::random();
        let fake = vec![b"never committed".to_vec()];
        let empty: Vec<Vec<u8>> = vec![];
        let nocom = ctx.call("blind_sign", &base, None, || BSig::<X>::blind_sign(&sk, &pk, None, ho, Some(&msgs))).value;
        let coms: [(&str, Option<&[Vec<u8>]>); 4] = [("None", None), ("Some([])", Some(&empty)), ("Some(cm)", Some(&cm)), ("Some(fake)", Some(&fake))];
        let blinds: [(&str, Option<&BlindFactor>); 4] = [("None", None), ("Some(zero)", Some(&zero)), ("Some(blind)", Some(&blind)), ("Some(random)", Some(&other))];
        for (cn, c) in coms {
            for (bn, b) in blinds {
                // the honest signature over the commitment
                let c_true = cn == "Some(cm)" || (m == 0 && cn != "Some(fake)");
                let truth = c_true && bn == "Some(blind)";
                let case = format!("{}/vbs-presence/with-commitment/{}/{}", base, cn, bn);
                let o = ctx.call("verify_blind_sign", &case, None, || bsig.verify_blind_sign(&pk, ho, Some(&msgs), c, b));
                if truth {
                    ctx.count(if o.outcome.is_ok() { "presence_grid_truths_accepted" } else { "presence_grid_truths_refused(C05's business)" }, 1);
                } else {
                    not_ok(ctx, "verify_blind_sign/presence-grid/with-commitment", &case, &o.outcome, json!({"committed":cn,"blind":bn,"M":m}));
                }
                // the signature issued without any commitment
                if let Some(ns) = &nocom {
                    let truth = (cn == "None" || cn == "Some([])" || (m == 0 && cn == "Some(cm)")) && (bn == "None" || bn == "Some(zero)");
                    let case = format!("{}/vbs-presence/no-commitment/{}/{}", base, cn, bn);
                    let o = ctx.call("verify_blind_sign", &case, None, || ns.verify_blind_sign(&pk, ho, Some(&msgs), c, b));
                    if truth {
                        ctx.count(if o.outcome.is_ok() { "presence_grid_truths_accepted" } else { "presence_grid_truths_refused(C05's business)" }, 1);
                    } else {
                        not_ok(ctx, "verify_blind_sign/presence-grid/no-commitment", &case, &o.outcome, json!({"committed":cn,"blind":bn,"M":m}));
                    }
                }
            }
        }
    }
    // header, pk
    let hb = hdr.octets().to_vec();
    let mut alts: Vec<Vec<u8>> = vec![{ let mut x = hb.clone(); x.push(0); x }];
    if !hb.is_empty() {
        alts.push(vec![]);
        alts.push({ let mut x = hb.clone(); x[0] ^= 1; x });
    }
    for (n, a) in alts.iter().enumerate() {
        vb("header-edited", format!("{n}"), &pk, Some(a), &msgs, &cm, Some(&blind));
    }
    let (_, pk2) = keypair::<X>(&mut r);
    vb("pk-other", "-".into(), &pk2, ho, &msgs, &cm, Some(&blind));
    vb("pk-negated", "-".into(), &BBSplusPublicKey(-pk.0), ho, &msgs, &cm, Some(&blind));
    vb("pk-identity", "-".into(), &BBSplusPublicKey(G2Projective::IDENTITY), ho, &msgs, &cm, Some(&blind));
    // blind signature bit flips
    let sb = bsig.to_bytes();
    for _ in 0..ctx.t(16, 64) {
        let b = rand_range(&mut r, 640);
        let mut s2 = sb;
        s2[b / 8] ^= 1 << (b % 8);
        let case = format!("{}/vbs-sig-bitflip/{}", base, b);
        if let Some(bs2) = ctx.call("from_bytes", &case, None, || BSig::<X>::from_bytes(&s2)).value {
            let o = ctx.call("verify_blind_sign", &case, None, || bs2.verify_blind_sign(&pk, ho, Some(&msgs), Some(&cm), Some(&blind)));
            not_ok(ctx, "verify_blind_sign/sig-bitflip", &case, &o.outcome, json!({"sig":hx(&s2)}));
        }
    }
    // other suite's verifier
    {
        let case = format!("{}/vbs-other-suite", base);
        if let Some(bs2) = ctx.call("from_bytes", &case, None, || BSig::<Y>::from_bytes(&sb)).value {
            let o = ctx.call("verify_blind_sign", &case, None, || bs2.verify_blind_sign(&pk, ho, Some(&msgs), Some(&cm), Some(&blind)));
            not_ok(ctx, "verify_blind_sign/other-suite", &case, &o.outcome, json!({}));
        }
    }

    // ------------------------------------------------ 3. blind proofs are bound to their statement
    let subsets: Vec<(Vec<usize>, Vec<usize>)> = {
        let mut v = vec![((0..l).collect::<Vec<_>>(), (0..m).collect::<Vec<_>>()), (vec![], vec![])];
        for _ in 0..ctx.t(2, 6) {
            v.push(((0..l).filter(|_| r.next_u32() % 2 == 0).collect(), (0..m).filter(|_| r.next_u32() % 2 == 0).collect()));
        }
        v
    };
    for (sn, (d, c)) in subsets.iter().enumerate() {
        let ph = Hdr::gen(&mut r, &[8]);
        let po = ph.as_opt();
        let Some(proof) = ctx.call("blind_proof_gen", &base, None, || {
            Pok::<X>::blind_proof_gen(&pk, &sb, ho, po, Some(&msgs), Some(&cm), Some(d), Some(c), Some(&blind))
        }).value else {
            ctx.inconclusive("C06: honest blind_proof_gen failed (C05's business)");
            continue;
        };
        let dm: Vec<Vec<u8>> = d.iter().map(|&i| msgs[i].clone()).collect();
        let dcm: Vec<Vec<u8>> = c.iter().map(|&j| cm[j].clone()).collect();
        if !ctx.call("blind_proof_verify", &base, None, || proof.blind_proof_verify(&pk, ho, po, Some(l), Some(&dm), Some(&dcm), Some(d), Some(c))).outcome.is_ok() {
            ctx.inconclusive("C06: honest blind proof did not verify (C05's business)");
            continue;
        }
        let pbase = format!("{}/proof{}(D={:?},C={:?})", base, sn, d, c);
        let pv = |kind: &str, pos: String, p: &Pok<X>, pk_: &BBSplusPublicKey, h: Option<&[u8]>, ph_: Option<&[u8]>, ll: Option<usize>, dm_: &[Vec<u8>], dcm_: &[Vec<u8>], d_: &[usize], c_: &[usize]| {
            let case = format!("{}/bpv-{}/{}", pbase, kind, pos);
            // honest verification derives l + m + 2 generators; give edits 4x that plus slack
            let o = ctx.call("blind_proof_verify", &case, Some(64 + 4 * (l + m + 2) as u64), || p.blind_proof_verify(pk_, h, ph_, ll, Some(dm_), Some(dcm_), Some(d_), Some(c_)));
            not_ok(ctx, &format!("blind_proof_verify/{}", kind), &case, &o.outcome,
                   json!({"L_used":ll.map(|x| x.to_string()),"signer_idx":d_.iter().map(|x| x.to_string()).collect::<Vec<_>>(),"committed_idx":c_.iter().map(|x| x.to_string()).collect::<Vec<_>>(),
                          "signer_msgs":msgs_json(dm_),"committed_msgs":msgs_json(dcm_),"honest":{"L":l,"M":m,"D":d,"C":c},"proof":hx_full(&p.to_bytes()),"pk":hx_full(&pk_.to_bytes()),"header":h.map(hx),"ph":ph_.map(hx)}));
        };
        // disclosed data edits (all positions for small shapes, a spread of positions for large ones)
        let pick_idx = |n: usize| -> Vec<usize> { if n <= 8 { (0..n).collect() } else { vec![0, 1, n / 2, n - 2, n - 1] } };
        let big = l + m > 12;
        for k in pick_idx(d.len()) {
            let mut x = dm.clone();
            if x[k].is_empty() { x[k].push(1) } else { x[k][0] ^= 1 }
            pv("signer-msg-altered", format!("{k}"), &proof, &pk, ho, po, Some(l), &x, &dcm, d, c);
            let mut x = dm.clone();
            let mut xi = d.clone();
            x.remove(k);
            xi.remove(k);
            pv("signer-pair-dropped", format!("{k}"), &proof, &pk, ho, po, Some(l), &x, &dcm, &xi, c);
            let tos: Vec<usize> = if !big { (0..l + m + 3).collect() } else { vec![0, 1, d[k].saturating_sub(1), d[k] + 1, d[k] + 64, d[k].wrapping_sub(64), l - 1, l, l + 1, l + m, l + m + 1, l + m + 2] };
            for to in tos.into_iter().chain([usize::MAX]) {
                if to != d[k] {
                    let mut xi = d.clone();
                    xi[k] = to;
                    pv("signer-index-moved", format!("{k}->{to}"), &proof, &pk, ho, po, Some(l), &dm, &dcm, &xi, c);
                }
            }
        }
        for k in pick_idx(c.len()) {
            let mut x = dcm.clone();
            if x[k].is_empty() { x[k].push(1) } else { x[k][0] ^= 1 }
            pv("committed-msg-altered", format!("{k}"), &proof, &pk, ho, po, Some(l), &dm, &x, d, c);
            let mut x = dcm.clone();
            let mut xi = c.clone();
            x.remove(k);
            xi.remove(k);
            pv("committed-pair-dropped", format!("{k}"), &proof, &pk, ho, po, Some(l), &dm, &x, d, &xi);
            let tos: Vec<usize> = if !big { (0..m + 2).collect() } else { vec![0, 1, c[k].saturating_sub(1), c[k] + 1, c[k] + 64, m - 1, m, m + 1] };
            for to in tos.into_iter().chain([usize::MAX, usize::MAX - l, usize::MAX - l - 1]) {
                if to != c[k] {
                    let mut xi = c.clone();
                    xi[k] = to;
                    pv("committed-index-moved", format!("{k}->{to}"), &proof, &pk, ho, po, Some(l), &dm, &dcm, d, &xi);
                }
            }
            // re-labelling: committed (j, msg) presented as the signer message at flat position L+1+j
            let mut sd: Vec<(usize, Vec<u8>)> = d.iter().copied().zip(dm.iter().cloned()).collect();
            sd.push((l + 1 + c[k], dcm[k].clone()));
            sd.sort();
            let mut xc = c.clone();
            let mut xcm = dcm.clone();
            xc.remove(k);
            xcm.remove(k);
            pv("relabel-committed-as-signer", format!("{k}"), &proof, &pk, ho, po, Some(l),
               &sd.iter().map(|p| p.1.clone()).collect::<Vec<_>>(), &xcm, &sd.iter().map(|p| p.0).collect::<Vec<_>>(), &xc);
            // the same false statement with the index list in another order (messages listed by ascending index, and
            // listed alongside their index): a verifier that sorts, or checks only the first / last entry, sees it
            let sm: Vec<Vec<u8>> = sd.iter().map(|p| p.1.clone()).collect();
            let si: Vec<usize> = sd.iter().map(|p| p.0).collect();
            let orders: Vec<(&str, Vec<usize>)> = vec![("reversed", (0..si.len()).rev().collect()), ("rotated", (1..si.len()).chain(0..1.min(si.len())).collect())];
            for (on, perm) in orders {
                let pi: Vec<usize> = perm.iter().map(|&q| si[q]).collect();
                if pi == si {
                    continue;
                }
                let pm: Vec<Vec<u8>> = perm.iter().map(|&q| sm[q].clone()).collect();
                pv("relabel-committed-as-signer", format!("{k}/indexes-{on}"), &proof, &pk, ho, po, Some(l), &sm, &xcm, &pi, &xc);
                pv("relabel-committed-as-signer", format!("{k}/pairs-{on}"), &proof, &pk, ho, po, Some(l), &pm, &xcm, &pi, &xc);
            }
        }
        // reverse re-labelling: signer (i, msg) presented in the committed list with wrapped index
        for k in pick_idx(d.len()) {
            let mut xd = d.clone();
            let mut xdm = dm.clone();
            xd.remove(k);
            xdm.remove(k);
            let j = d[k].wrapping_sub(l + 1);
            let mut cd: Vec<(usize, Vec<u8>)> = c.iter().copied().zip(dcm.iter().cloned()).collect();
            cd.push((j, dm[k].clone()));
            cd.sort();
            pv("relabel-signer-as-committed", format!("{k}"), &proof, &pk, ho, po, Some(l),
               &xdm, &cd.iter().map(|p| p.1.clone()).collect::<Vec<_>>(), &xd, &cd.iter().map(|p| p.0).collect::<Vec<_>>());
        }
        // surplus disclosed messages (more messages than indexes), in either list, and messages with the index list absent
        {
            let extra = b"never signed".to_vec();
            let mut x = dm.clone();
            x.push(extra.clone());
            pv("signer-msg-surplus", "end".into(), &proof, &pk, ho, po, Some(l), &x, &dcm, d, c);
            let mut x = dcm.clone();
            x.push(extra.clone());
            pv("committed-msg-surplus", "end".into(), &proof, &pk, ho, po, Some(l), &dm, &x, d, c);
            let mut x = dcm.clone();
            x.insert(0, extra.clone());
            pv("committed-msg-surplus", "front".into(), &proof, &pk, ho, po, Some(l), &dm, &x, d, c);
            let case = format!("{}/bpv-indexes-absent", pbase);
            if !dcm.is_empty() || !dm.is_empty() {
                let o = ctx.call("blind_proof_verify", &case, Some(64 + 4 * (l + m + 2) as u64), || proof.blind_proof_verify(&pk, ho, po, Some(l), Some(&dm), Some(&[extra.clone()]), Some(d), None));
                if c.is_empty() {
                    not_ok(ctx, "blind_proof_verify/committed-msg-without-index", &case, &o.outcome, json!({"honest":{"L":l,"M":m,"D":d,"C":c}}));
                }
                let o = ctx.call("blind_proof_verify", &case, Some(64 + 4 * (l + m + 2) as u64), || proof.blind_proof_verify(&pk, ho, po, Some(l), Some(&[extra.clone()]), Some(&dcm), None, Some(c)));
                if d.is_empty() {
                    not_ok(ctx, "blind_proof_verify/signer-msg-without-index", &case, &o.outcome, json!({"honest":{"L":l,"M":m,"D":d,"C":c}}));
                }
            }
        }
        // the blind-factor slot L claimed as a disclosed signer message
        {
            let mut sd: Vec<(usize, Vec<u8>)> = d.iter().copied().zip(dm.iter().cloned()).collect();
            sd.push((l, b"slot".to_vec()));
            sd.sort();
            pv("blind-slot-disclosed", "-".into(), &proof, &pk, ho, po, Some(l),
               &sd.iter().map(|p| p.1.clone()).collect::<Vec<_>>(), &dcm, &sd.iter().map(|p| p.0).collect::<Vec<_>>(), c);
        }
        // L edits
        let n = l + 1 + m;
        for ll in [Some(0usize), None, Some(l.wrapping_sub(1)), Some(l + 1), Some(n - 1), Some(n), Some(n + 1), Some(1 << 32), Some(usize::MAX - 1), Some(usize::MAX)] {
            if ll.unwrap_or(0) == l {
                continue;
            }
            pv("L-edited", format!("{:?}", ll), &proof, &pk, ho, po, ll, &dm, &dcm, d, c);
        }
        // ph, header, pk
        for (n_, a) in [vec![0xAAu8; 3], { let mut x = ph.octets().to_vec(); x.push(0); x }].iter().enumerate() {
            if a.as_slice() != ph.octets() {
                pv("ph-edited", format!("{n_}"), &proof, &pk, ho, Some(a), Some(l), &dm, &dcm, d, c);
            }
        }
        if !ph.octets().is_empty() {
            pv("ph-removed", "-".into(), &proof, &pk, ho, None, Some(l), &dm, &dcm, d, c);
        }
        for (n_, a) in alts.iter().enumerate() {
            pv("header-edited", format!("{n_}"), &proof, &pk, Some(a), po, Some(l), &dm, &dcm, d, c);
        }
        pv("pk-other", "-".into(), &proof, &pk2, ho, po, Some(l), &dm, &dcm, d, c);
        // proof bit flips (sample) and plain-interface verification of a blind proof
        let pb = proof.to_bytes();
        for _ in 0..ctx.t(24, 96) {
            let b = rand_range(&mut r, pb.len() * 8);
            let mut p2 = pb.clone();
            p2[b / 8] ^= 1 << (b % 8);
            let case = format!("{}/bpv-proof-bitflip/{}", pbase, b);
            if let Some(pp) = ctx.call("from_bytes", &case, None, || Pok::<X>::from_bytes(&p2)).value {
                pv("proof-bitflip", format!("{b}"), &pp, &pk, ho, po, Some(l), &dm, &dcm, d, c);
            }
        }
        if sn == 0 {
            ctx.sample(json!({"honest":{"suite":name::<X>(),"L":l,"M":m,"D":d,"C":c,"commitment_len":cwp.len(),"proof_len":pb.len()},
                              "edits":"commitment bit flips/mixes/other suite/scalar-granular truncation+extension; verify_blind_sign message/blind/header/pk edits; blind_proof_verify data/index/relabel/L/ph/header/pk/bit-flip edits"}));
        }
    }
}

pub fn scenarios(ctx: &Ctx) -> Vec<Scenario> {
    let mut v = Vec::new();
    let mut idx = 0u64;
    let ls: &[usize] = ctx.t(&[0, 1, 3], &[0, 1, 2, 3, 5]);
    let ms: &[usize] = ctx.t(&[0, 1, 2, 5], &[0, 1, 2, 3, 5, 8]);
    // large shapes: positions deep in either list
    for (l, m) in ctx.t(&[(70usize, 2usize)][..], &[(70usize, 2usize), (2, 70), (130, 5)][..]) {
        let (l, m) = (*l, *m);
        let i = 9000 + idx;
        idx += 1;
        v.push(scenario(format!("sha/L{l}/M{m}"), move |c| one::<Sha, Shake>(c, i, l, m, false)));
        v.push(scenario(format!("shake/L{l}/M{m}"), move |c| one::<Shake, Sha>(c, i, l, m, false)));
    }
    for rep in 0..ctx.t(1, 3) {
        for &l in ls {
            for &m in ms {
                let i = idx;
                idx += 1;
                let all = if ctx.quick() { rep == 0 && ((l == 1 && m == 1) || (l == 0 && m == 0) || (l == 3 && m == 2)) } else { rep == 0 };
                v.push(scenario(format!("sha/L{l}/M{m}"), move |c| one::<Sha, Shake>(c, i, l, m, all)));
                v.push(scenario(format!("shake/L{l}/M{m}"), move |c| one::<Shake, Sha>(c, i, l, m, all)));
            }
        }
    }
    v
}

//! C10 — Every deterministic BBS operation matches the drafts for all inputs (reference-model monitor),
//! single-threaded and under multi-threaded interleavings.

use crate::api::*;
use crate::common::*;
use crate::refimpl::{self as rf, SuiteId};
use bls12_381_plus::Scalar;
use rand::RngCore;
use serde_json::json;
use std::collections::{BTreeMap, BTreeSet};
use std::sync::atomic::{AtomicUsize, Ordering};
use std::sync::{Barrier, Mutex, OnceLock};
use zkryptium::utils::message::bbsplus_message::BBSplusMessage;
use zkryptium::utils::util::bbsplus_utils::hash_to_scalar;

type Bytes = Vec<u8>;

#[derive(Clone, Debug)]
pub enum Case {
    KeyGen { ikm: Bytes, info: Option<Bytes>, dst: Option<Bytes> },
    H2S { msg: Bytes, dst: Bytes },
    MapMsgs { msgs: Vec<Bytes>, blind_api: bool },
    Gens { count: usize, api: Option<Bytes> },
    /// `pk_of`: the public key handed to the signer is the one of this other secret (None = matching pair)
    Sign { sk: Scalar, pk_of: Option<Scalar>, header: Option<Bytes>, msgs: Vec<Bytes> },
    BlindSign { sk: Scalar, pk_of: Option<Scalar>, cwp: Bytes, header: Option<Bytes>, msgs: Vec<Bytes> },
    Verify { pk: Bytes, sig: Bytes, header: Option<Bytes>, msgs: Vec<Bytes> },
    ProofVerify { pk: Bytes, proof: Bytes, header: Option<Bytes>, ph: Option<Bytes>, dm: Vec<Bytes>, di: Vec<usize> },
    VerifyBlindSign { pk: Bytes, sig: Bytes, header: Option<Bytes>, msgs: Vec<Bytes>, cm: Vec<Bytes>, blind: Scalar },
    BlindProofVerify { pk: Bytes, proof: Bytes, header: Option<Bytes>, ph: Option<Bytes>, l: usize, dm: Vec<Bytes>, dcm: Vec<Bytes>, di: Vec<usize>, dci: Vec<usize> },
}

impl Case {
    pub fn kind(&self) -> &'static str {
        match self {
            Case::KeyGen { .. } => "key_gen",
            Case::H2S { .. } => "hash_to_scalar",
            Case::MapMsgs { .. } => "messages_to_scalar",
            Case::Gens { .. } => "create_generators",
            Case::Sign { .. } => "sign",
            Case::BlindSign { .. } => "blind_sign",
            Case::Verify { .. } => "verify",
            Case::ProofVerify { .. } => "proof_verify",
            Case::VerifyBlindSign { .. } => "verify_blind_sign",
            Case::BlindProofVerify { .. } => "blind_proof_verify",
        }
    }
    fn describe(&self) -> serde_json::Value {
        let s = format!("{:?}", self);
        json!(if s.len() > 1500 { format!("{}...({} chars)", &s[..1500], s.len()) } else { s })
    }
}

/// Err(()) = refused / not accepted; Ok(bytes) = output octets (empty for a bare accept)
type Out = Result<Bytes, ()>;

fn o<'a>(x: &'a Option<Bytes>) -> Option<&'a [u8]> {
    x.as_deref()
}

fn run_ref(s: SuiteId, c: &Case) -> Out {
    let h = |x: &Option<Bytes>| x.clone().unwrap_or_default();
    match c {
        Case::KeyGen { ikm, info, dst } => {
            let sk = rf::key_gen(s, ikm, &h(info), dst.as_deref()).map_err(|_| ())?;
            Ok([rf::scalar_be(&sk).to_vec(), rf::g2_c(&rf::sk_to_pk(&sk)).to_vec()].concat())
        }
        Case::H2S { msg, dst } => rf::hash_to_scalar(s, msg, dst).map(|x| rf::scalar_be(&x).to_vec()).map_err(|_| ()),
        Case::MapMsgs { msgs, blind_api } => {
            let api = if *blind_api { s.blind_api_id() } else { s.api_id() };
            rf::messages_to_scalars(s, msgs, &api).map(|v| v.iter().flat_map(|x| rf::scalar_be(x)).collect()).map_err(|_| ())
        }
        Case::Gens { count, api } => Ok(rf::create_generators(s, *count, api.as_deref().unwrap_or(&[])).iter().flat_map(|g| rf::g1_c(g)).collect()),
        Case::Sign { sk, pk_of, header, msgs } => rf::sign(s, sk, &rf::sk_to_pk(pk_of.as_ref().unwrap_or(sk)), &h(header), msgs).map(|x| x.to_vec()).map_err(|_| ()),
        Case::BlindSign { sk, pk_of, cwp, header, msgs } => rf::blind_sign(s, sk, &rf::sk_to_pk(pk_of.as_ref().unwrap_or(sk)), cwp, &h(header), msgs).map(|x| x.to_vec()).map_err(|_| ()),
        Case::Verify { pk, sig, header, msgs } => if rf::verify(s, pk, sig, &h(header), msgs) { Ok(vec![]) } else { Err(()) },
        Case::ProofVerify { pk, proof, header, ph, dm, di } => if rf::proof_verify(s, pk, proof, &h(header), &h(ph), dm, di) { Ok(vec![]) } else { Err(()) },
        Case::VerifyBlindSign { pk, sig, header, msgs, cm, blind } => if rf::verify_blind_sign(s, pk, sig, &h(header), msgs, cm, blind) { Ok(vec![]) } else { Err(()) },
        Case::BlindProofVerify { pk, proof, header, ph, l, dm, dcm, di, dci } => {
            if rf::blind_proof_verify(s, pk, proof, &h(header), &h(ph), *l, dm, dcm, di, dci) { Ok(vec![]) } else { Err(()) }
        }
    }
}

fn run_lib<X: Sx>(ctx: &Ctx, c: &Case, sig: &str) -> (Outcome, Out) {
    let m = ctx.call(c.kind(), sig, Some(6000), || -> Result<Bytes, String> {
        let e = |x: zkryptium::errors::Error| format!("{:?}", x);
        match c {
            Case::KeyGen { ikm, info, dst } => {
                let kp = Kp::<X>::generate(ikm, o(info), o(dst)).map_err(e)?;
                Ok([kp.private_key().to_bytes().to_vec(), kp.public_key().to_bytes().to_vec()].concat())
            }
            Case::H2S { msg, dst } => hash_to_scalar::<X::CS>(msg, dst).map(|x| x.to_be_bytes().to_vec()).map_err(e),
            Case::MapMsgs { msgs, blind_api } => {
                use zkryptium::bbsplus::ciphersuites::BbsCiphersuite;
                let api = if *blind_api { <X::CS as BbsCiphersuite>::API_ID_BLIND } else { <X::CS as BbsCiphersuite>::API_ID };
                // both entry points: the list mapper and the single-message mapper
                let v = BBSplusMessage::messages_to_scalar::<X::CS>(msgs, api).map_err(e)?;
                for (k, m) in msgs.iter().enumerate() {
                    let one = BBSplusMessage::map_message_to_scalar_as_hash::<X::CS>(m, api).map_err(e)?;
                    if one != v[k] {
                        return Ok(b"list mapper and single mapper disagree".to_vec());
                    }
                }
                Ok(v.iter().flat_map(|x| x.to_bytes_be()).collect())
            }
            Case::Gens { count, api } => {
                use group::Curve;
                let g = Generators::create::<X::CS>(*count, o(api));
                if g.g1_base_point != X::ID.p1() {
                    return Ok(b"wrong P1".to_vec());
                }
                Ok(g.values.iter().flat_map(|p| p.to_affine().to_compressed()).collect())
            }
            Case::Sign { sk, pk_of, header, msgs } => {
                let (sk, mut pk) = key_from_scalar(*sk);
                if let Some(o2) = pk_of {
                    pk = key_from_scalar(*o2).1;
                }
                Sig::<X>::sign(Some(msgs), &sk, &pk, o(header)).map(|s| s.to_bytes().to_vec()).map_err(e)
            }
            Case::BlindSign { sk, pk_of, cwp, header, msgs } => {
                let (sk, mut pk) = key_from_scalar(*sk);
                if let Some(o2) = pk_of {
                    pk = key_from_scalar(*o2).1;
                }
                BSig::<X>::blind_sign(&sk, &pk, if cwp.is_empty() { None } else { Some(cwp) }, o(header), Some(msgs)).map(|s| s.to_bytes().to_vec()).map_err(e)
            }
            Case::Verify { pk, sig, header, msgs } => {
                let pk = BBSplusPublicKey::from_bytes(pk).map_err(e)?;
                let s = Sig::<X>::from_bytes(sig.as_slice().try_into().map_err(|_| "len".to_string())?).map_err(e)?;
                s.verify(&pk, Some(msgs), o(header)).map(|_| vec![]).map_err(e)
            }
            Case::ProofVerify { pk, proof, header, ph, dm, di } => {
                let pk = BBSplusPublicKey::from_bytes(pk).map_err(e)?;
                let p = Pok::<X>::from_bytes(proof).map_err(e)?;
                p.proof_verify(&pk, Some(dm), Some(di), o(header), o(ph)).map(|_| vec![]).map_err(e)
            }
            Case::VerifyBlindSign { pk, sig, header, msgs, cm, blind } => {
                let pk = BBSplusPublicKey::from_bytes(pk).map_err(e)?;
                let s = BSig::<X>::from_bytes(sig.as_slice().try_into().map_err(|_| "len".to_string())?).map_err(e)?;
                let bf = BlindFactor::from_bytes(&blind.to_be_bytes()).map_err(e)?;
                s.verify_blind_sign(&pk, o(header), Some(msgs), Some(cm), Some(&bf)).map(|_| vec![]).map_err(e)
            }
            Case::BlindProofVerify { pk, proof, header, ph, l, dm, dcm, di, dci } => {
                let pk = BBSplusPublicKey::from_bytes(pk).map_err(e)?;
                let p = Pok::<X>::from_bytes(proof).map_err(e)?;
                p.blind_proof_verify(&pk, o(header), o(ph), Some(*l), Some(dm), Some(dcm), Some(di), Some(dci)).map(|_| vec![]).map_err(e)
            }
        }
    });
    let out = match (&m.outcome, m.value) {
        (Outcome::Ok, Some(v)) => Ok(v),
        _ => Err(()),
    };
    (m.outcome, out)
}

fn compare<X: Sx>(ctx: &Ctx, c: &Case, label: &str, expected: &Out, threads: usize) {
    let sig = format!("{}/{}/{}", name::<X>(), c.kind(), label);
    ctx.distinct(&sig);
    let (outcome, got) = run_lib::<X>(ctx, c, &sig);
    if &got != expected {
        let what = match (expected, &got) {
            (Ok(_), Ok(_)) => "output-differs",
            (Ok(_), Err(_)) => "library-refuses/reference-accepts",
            (Err(_), Ok(_)) => "library-accepts/reference-refuses",
            _ => unreachable!(),
        };
        let cls = label.split('/').next().unwrap_or("");
        ctx.violation(
            &format!("C10:{}/{}/{}{}", what, c.kind(), cls, if threads > 1 { "/threaded" } else { "" }),
            json!({"case":sig,"threads":threads,"library":format!("{} {}", outcome.short(), got.as_ref().map(|v| hx(v)).unwrap_or_default()),
                   "reference":expected.as_ref().map(|v| hx(v)).map_err(|_| "refused"),"input":c.describe()}),
        );
    }
}

// ---------------------------------------------------------------- case generation

fn det_cases<X: Sx>(ctx: &Ctx, r: &mut impl RngCore, part: usize) -> Vec<(String, Case)> {
    let mut v: Vec<(String, Case)> = vec![];
    let q = ctx.quick();
    match part {
        0 => {
            // key generation: ikm lengths, key_info lengths, key_dst lengths
            for n in (0..=34).chain([63, 64, 65, 255, 256, 1000]) {
                v.push((format!("ikm{n}"), Case::KeyGen { ikm: rand_bytes(r, n), info: None, dst: None }));
            }
            for n in [0usize, 1, 2, 255, 256, 257, 65535, 65536, 70000] {
                v.push((format!("info{n}"), Case::KeyGen { ikm: rand_bytes(r, 32), info: Some(rand_bytes(r, n)), dst: None }));
            }
            for n in [0usize, 1, 16, 254, 255, 256, 300] {
                v.push((format!("dst{n}"), Case::KeyGen { ikm: rand_bytes(r, 40), info: Some(rand_bytes(r, 5)), dst: Some(rand_bytes(r, n)) }));
            }
            v.push(("dst-default-explicit".into(), Case::KeyGen { ikm: vec![9; 32], info: None, dst: Some([&X::ID.api_id()[..], b"KEYGEN_DST_"].concat()) }));
        }
        1 => {
            for n in (0..=300).step_by(if q { 3 } else { 1 }) {
                v.push((format!("msg{n}"), Case::H2S { msg: rand_bytes(r, n), dst: [&X::ID.api_id()[..], b"H2S_"].concat() }));
            }
            for n in [0usize, 1, 2, 254, 255, 256, 257, 1000] {
                v.push((format!("dst{n}"), Case::H2S { msg: rand_bytes(r, 17), dst: rand_bytes(r, n) }));
            }
            for n in [1000usize, 65535, 65536, 100_000] {
                v.push((format!("msg{n}"), Case::H2S { msg: rand_bytes(r, n), dst: b"x".to_vec() }));
            }
            for k in 0..if q { 6 } else { 40 } {
                let l = [0usize, 1, 2, 7, 33, 100][k % 6];
                v.push((format!("map{l}"), Case::MapMsgs { msgs: gen_messages(r, l, k), blind_api: k % 2 == 1 }));
            }
        }
        2 => {
            // generators: counts x api ids (prefix consistency is implied by equality with the reference for every count)
            let apis: Vec<(String, Option<Bytes>)> = vec![
                ("api".into(), Some(X::ID.api_id())),
                ("blind".into(), Some(X::ID.blind_api_id())),
                ("blindblind".into(), Some([b"BLIND_".as_slice(), &X::ID.blind_api_id()].concat())),
                ("empty".into(), Some(vec![])),
                ("none".into(), None),
                ("200B".into(), Some(vec![b'a'; 200])),
                // api_id || "SIG_GENERATOR_SEED_" crosses 255 octets at 237: RFC 9380 then hashes the DST
                ("236B".into(), Some(vec![b'b'; 236])),
                ("237B".into(), Some(vec![b'b'; 237])),
                ("300B".into(), Some(vec![b'c'; 300])),
                ("5000B".into(), Some(vec![b'd'; 5000])),
                ("binary".into(), Some(vec![0x00, 0xff, 0x80, 0xc3, 0x28, 0xe2, 0x82, 0x41])),
                ("binary2".into(), Some(vec![0x00, 0xff, 0x81, 0xc3, 0x28, 0xe2, 0x83, 0x41])),
                ("other-suite".into(), Some(if X::ID == SuiteId::Sha { SuiteId::Shake.api_id() } else { SuiteId::Sha.api_id() })),
            ];
            let counts: Vec<usize> = if q { vec![0, 1, 2, 3, 16, 65] } else { (0..=40).chain([64, 65, 127, 128, 255, 256, 257, 1000]).collect() };
            for (an, a) in &apis {
                for &cn in &counts {
                    v.push((format!("{an}/n{cn}"), Case::Gens { count: cn, api: a.clone() }));
                }
            }
        }
        3 => {
            // signing: L classes x header classes
            let ls: Vec<usize> = if q { vec![0, 1, 2, 3, 10, 33, 257] } else { vec![0, 1, 2, 3, 5, 10, 16, 31, 32, 33, 64, 100, 255, 256, 257, 1000] };
            for (k, &l) in ls.iter().enumerate() {
                for hc in 0..if q { 2 } else { 5 } {
                    let header = match (k + hc) % 7 {
                        0 => None,
                        1 => Some(vec![]),
                        2 => Some(rand_bytes(r, 1)),
                        3 => Some(rand_bytes(r, 255)),
                        4 => Some(rand_bytes(r, 256)),
                        5 => Some(rand_bytes(r, 65535)),
                        _ => Some(rand_bytes(r, 65536)),
                    };
                    v.push((format!("L{l}/hdr{}", header.as_ref().map(|h| h.len() as i64).unwrap_or(-1)),
                            Case::Sign { sk: crate::c04::rand_scalar(r), pk_of: if (k + hc) % 3 == 2 { Some(crate::c04::rand_scalar(r)) } else { None }, header, msgs: gen_messages(r, l, k + hc) }));
                }
            }
        }
        _ => {}
    }
    v
}

/// honest artefacts (both directions) and sampled mutations, for the verifiers
fn decision_cases<X: Sx>(ctx: &Ctx, r: &mut impl RngCore, l: usize, m: usize) -> Vec<(String, Case)> {
    let s = X::ID;
    let mut v: Vec<(String, Case)> = vec![];
    let sk = crate::c04::rand_scalar(r);
    let w = rf::sk_to_pk(&sk);
    let pk = rf::g2_c(&w).to_vec();
    let (lsk, lpk) = key_from_scalar(sk);
    let msgs = gen_messages(r, l, 0);
    let cm = gen_messages(r, m, 0);
    let header = Hdr::gen(r, &[7]).as_opt().map(|x| x.to_vec());
    let ph = Hdr::gen(r, &[9]).as_opt().map(|x| x.to_vec());
    let hb = header.clone().unwrap_or_default();
    let pb = ph.clone().unwrap_or_default();
    let di: Vec<usize> = (0..l).filter(|_| r.next_u32() % 2 == 0).collect();
    let dm: Vec<Bytes> = di.iter().map(|&i| msgs[i].clone()).collect();
    let dci: Vec<usize> = (0..m).filter(|_| r.next_u32() % 2 == 0).collect();
    let dcm: Vec<Bytes> = dci.iter().map(|&j| cm[j].clone()).collect();
    // library-made artefacts: the inputs are honest and the reference produces each of them (below), so a refusal of
    // the library is a decision that differs from the reference's
    let shape = format!("L{l}M{m}/D={:?}/C={:?}", di, dci);
    macro_rules! lib_gen {
        ($op:expr, $e:expr) => {
            match ctx.call(concat!("generate/", $op), &shape, None, || $e).value {
                Some(x) => x,
                None => {
                    ctx.violation(concat!("C10:library-refuses/reference-accepts/", $op), json!({"shape":shape,"suite":name::<X>()}));
                    return v;
                }
            }
        };
    }
    let lsig = lib_gen!("sign", Sig::<X>::sign(Some(&msgs), &lsk, &lpk, header.as_deref())).to_bytes().to_vec();
    let lproof = lib_gen!("proof_gen", Pok::<X>::proof_gen(&lpk, &lsig, header.as_deref(), ph.as_deref(), Some(&msgs), Some(&di))).to_bytes();
    let (lcom, lbf) = lib_gen!("commit", Com::<X>::commit(Some(&cm)));
    let lcwp = lcom.to_bytes();
    let lblind = rf::octets_to_scalar(&lbf.to_bytes()).unwrap();
    let lbsig = lib_gen!("blind_sign", BSig::<X>::blind_sign(&lsk, &lpk, Some(&lcwp), header.as_deref(), Some(&msgs))).to_bytes().to_vec();
    let lbproof = lib_gen!("blind_proof_gen", Pok::<X>::blind_proof_gen(&lpk, &lbsig, header.as_deref(), ph.as_deref(), Some(&msgs), Some(&cm), Some(&di), Some(&dci), Some(&lbf))).to_bytes();
    // reference-made artefacts (own randomness)
    let rsig = rf::sign(s, &sk, &w, &hb, &msgs).unwrap().to_vec();
    let rnd: Vec<Scalar> = (0..5 + l - di.len()).map(|_| crate::c04::rand_scalar(r)).collect();
    let rproof = rf::proof_gen(s, &w, &rsig, &hb, &pb, &msgs, &di, &rnd).unwrap();
    let rnd: Vec<Scalar> = (0..m + 2).map(|_| crate::c04::rand_scalar(r)).collect();
    let (rcwp, rblind) = rf::commit(s, &cm, &rnd).unwrap();
    let rbsig = rf::blind_sign(s, &sk, &w, &rcwp, &hb, &msgs).unwrap().to_vec();
    let rnd: Vec<Scalar> = (0..5 + l + 1 + m - di.len() - dci.len()).map(|_| crate::c04::rand_scalar(r)).collect();
    let rbproof = rf::blind_proof_gen(s, &w, &rbsig, &hb, &pb, &msgs, &cm, &di, &dci, &rblind, &rnd).unwrap();

    let mutate = |r: &mut dyn RngCore, b: &Bytes, point_slots: &[usize], scalar_slots: &[usize]| -> Vec<(String, Bytes)> {
        let mut out: Vec<(String, Bytes)> = vec![("honest".into(), b.clone())];
        for _ in 0..3 {
            let mut x = b.clone();
            let bit = (r.next_u64() % (x.len() as u64 * 8)) as usize;
            x[bit / 8] ^= 1 << (bit % 8);
            out.push(("bitflip".into(), x));
        }
        for k in [1usize, 7, 31, 32, 33, 64] {
            let mut x = b.clone();
            x.extend(vec![0u8; k]);
            out.push((format!("trailing{k}"), x));
            if b.len() > k {
                out.push((format!("truncated{k}"), b[..b.len() - k].to_vec()));
            }
        }
        let mut inf = [0u8; 48];
        inf[0] = 0xc0;
        for &pslot in point_slots {
            let mut x = b.clone();
            x[pslot..pslot + 48].copy_from_slice(&inf);
            out.push((format!("identity@{pslot}"), x));
        }
        for &ss in scalar_slots {
            let rbytes = hex::decode("73eda753299d7d483339d80809a1d80553bda402fffe5bfeffffffff00000001").unwrap();
            let mut x = b.clone();
            x[ss..ss + 32].copy_from_slice(&rbytes);
            out.push((format!("scalar=r@{ss}"), x));
            // the non-canonical alias value + r of the honest scalar (fits in 32 bytes since 2r < 2^256)
            let mut x = b.clone();
            let mut carry = 0u16;
            for k in (0..32).rev() {
                let s = x[ss + k] as u16 + rbytes[k] as u16 + carry;
                x[ss + k] = s as u8;
                carry = s >> 8;
            }
            if carry == 0 {
                out.push((format!("scalar+r@{ss}"), x));
            }
        }
        out
    };
    // --- verify
    for (src, sg) in [("lib", &lsig), ("ref", &rsig)] {
        for (mn, sb) in mutate(r, sg, &[0], &[48]) {
            v.push((format!("{mn}/{src}-sig"), Case::Verify { pk: pk.clone(), sig: sb, header: header.clone(), msgs: msgs.clone() }));
        }
        let mut ez = sg.clone();
        ez[48..].fill(0);
        v.push((format!("e=0/{src}-sig"), Case::Verify { pk: pk.clone(), sig: ez, header: header.clone(), msgs: msgs.clone() }));
        let mut m2 = msgs.clone();
        m2.push(vec![1]);
        v.push((format!("extra-msg/{src}-sig"), Case::Verify { pk: pk.clone(), sig: sg.clone(), header: header.clone(), msgs: m2 }));
        v.push((format!("other-header/{src}-sig"), Case::Verify { pk: pk.clone(), sig: sg.clone(), header: Some(b"zz".to_vec()), msgs: msgs.clone() }));
        for (mn, pkb) in mutate(r, &pk, &[], &[]) {
            if mn.starts_with("honest") { continue; }
            v.push((format!("pk-{mn}/{src}-sig"), Case::Verify { pk: pkb, sig: sg.clone(), header: header.clone(), msgs: msgs.clone() }));
        }
        let mut pkinf = vec![0u8; 96];
        pkinf[0] = 0xc0;
        v.push((format!("pk-identity/{src}-sig"), Case::Verify { pk: pkinf, sig: sg.clone(), header: header.clone(), msgs: msgs.clone() }));
    }
    // --- proof_verify
    for (src, pf) in [("lib", &lproof), ("ref", &rproof)] {
        let u = l - di.len();
        let sslots: Vec<usize> = (0..4 + u).map(|k| 144 + 32 * k).collect();
        for (mn, pb_) in mutate(r, pf, &[0, 48, 96], &sslots[..2.min(sslots.len())]) {
            // zero response scalars are outside the decision-equality domain (DESIGN.md section 4)
            if rf::octets_to_proof(&pb_).map(|p| p.has_zero_scalar()).unwrap_or(false) { continue; }
            v.push((format!("{mn}/{src}-proof"), Case::ProofVerify { pk: pk.clone(), proof: pb_, header: header.clone(), ph: ph.clone(), dm: dm.clone(), di: di.clone() }));
        }
        v.push((format!("other-ph/{src}-proof"), Case::ProofVerify { pk: pk.clone(), proof: pf.clone(), header: header.clone(), ph: Some(b"q".to_vec()), dm: dm.clone(), di: di.clone() }));
        if !di.is_empty() {
            let mut di2 = di.clone();
            *di2.last_mut().unwrap() = l; // out of range, still ascending
            v.push((format!("index-out-of-range/{src}-proof"), Case::ProofVerify { pk: pk.clone(), proof: pf.clone(), header: header.clone(), ph: ph.clone(), dm: dm.clone(), di: di2 }));
            v.push((format!("missing-message/{src}-proof"), Case::ProofVerify { pk: pk.clone(), proof: pf.clone(), header: header.clone(), ph: ph.clone(), dm: dm[..dm.len() - 1].to_vec(), di: di.clone() }));
            // the disclosed (index, message) pairs enter the challenge in the order supplied and R counts every entry:
            // consistent pairs in another order, or one pair listed twice, are a different statement
            let mut dm3 = dm.clone();
            let mut di3 = di.clone();
            dm3.push(dm[0].clone());
            di3.push(di[0]);
            v.push((format!("pair-repeated-at-end/{src}-proof"), Case::ProofVerify { pk: pk.clone(), proof: pf.clone(), header: header.clone(), ph: ph.clone(), dm: dm3, di: di3 }));
            let mut dm3 = dm.clone();
            let mut di3 = di.clone();
            dm3.insert(0, dm[0].clone());
            di3.insert(0, di[0]);
            v.push((format!("pair-repeated-in-place/{src}-proof"), Case::ProofVerify { pk: pk.clone(), proof: pf.clone(), header: header.clone(), ph: ph.clone(), dm: dm3, di: di3 }));
            let distinct = dm.iter().collect::<std::collections::HashSet<_>>().len() == dm.len();
            if di.len() >= 2 && distinct {
                let (rm, ri): (Vec<Bytes>, Vec<usize>) = (dm.iter().rev().cloned().collect(), di.iter().rev().copied().collect());
                v.push((format!("pairs-reversed/{src}-proof"), Case::ProofVerify { pk: pk.clone(), proof: pf.clone(), header: header.clone(), ph: ph.clone(), dm: rm, di: ri }));
                // (indexes reversed with the messages left in ascending-index order is NOT a case: the drafts require an
                // ascending list, the library sorts the indexes and so verifies the same true statement - no decision
                // of the drafts exists to compare with)
                let mut rm = dm.clone();
                let mut ri = di.clone();
                rm.rotate_left(1);
                ri.rotate_left(1);
                v.push((format!("pairs-rotated/{src}-proof"), Case::ProofVerify { pk: pk.clone(), proof: pf.clone(), header: header.clone(), ph: ph.clone(), dm: rm, di: ri }));
            }
        }
    }
    // --- blind_sign (commitment validation) : byte equality when both accept
    for (src, cw) in [("lib", &lcwp), ("ref", &rcwp)] {
        for (mn, cb) in mutate(r, cw, &[], &[48]) {
            v.push((format!("{mn}/{src}-commitment"), Case::BlindSign { sk, pk_of: None, cwp: cb, header: header.clone(), msgs: msgs.clone() }));
        }
    }
    v.push(("no-commitment".into(), Case::BlindSign { sk, pk_of: None, cwp: vec![], header: header.clone(), msgs: msgs.clone() }));
    // the signer is handed a public key that does not belong to its secret key (the drafts put the SUPPLIED key into the domain)
    let other = crate::c04::rand_scalar(r);
    v.push(("mismatched-pk/no-commitment".into(), Case::BlindSign { sk, pk_of: Some(other), cwp: vec![], header: header.clone(), msgs: msgs.clone() }));
    v.push(("mismatched-pk/lib-commitment".into(), Case::BlindSign { sk, pk_of: Some(other), cwp: lcwp.clone(), header: header.clone(), msgs: msgs.clone() }));
    v.push(("mismatched-pk/sign".into(), Case::Sign { sk, pk_of: Some(other), header: header.clone(), msgs: msgs.clone() }));
    // --- verify_blind_sign
    for (src, bs, bl) in [("lib", &lbsig, lblind), ("ref", &rbsig, rblind)] {
        for (mn, sb) in mutate(r, bs, &[0], &[48]) {
            v.push((format!("{mn}/{src}-blindsig"), Case::VerifyBlindSign { pk: pk.clone(), sig: sb, header: header.clone(), msgs: msgs.clone(), cm: cm.clone(), blind: bl }));
        }
        v.push((format!("other-blind/{src}-blindsig"), Case::VerifyBlindSign { pk: pk.clone(), sig: bs.clone(), header: header.clone(), msgs: msgs.clone(), cm: cm.clone(), blind: bl + Scalar::ONE }));
        if m > 0 {
            v.push((format!("missing-committed/{src}-blindsig"), Case::VerifyBlindSign { pk: pk.clone(), sig: bs.clone(), header: header.clone(), msgs: msgs.clone(), cm: cm[..m - 1].to_vec(), blind: bl }));
        }
    }
    // --- blind_proof_verify
    for (src, pf) in [("lib", &lbproof), ("ref", &rbproof)] {
        for (mn, pb_) in mutate(r, pf, &[0, 48, 96], &[144]) {
            if rf::octets_to_proof(&pb_).map(|p| p.has_zero_scalar()).unwrap_or(false) { continue; }
            v.push((format!("{mn}/{src}-blindproof"), Case::BlindProofVerify { pk: pk.clone(), proof: pb_, header: header.clone(), ph: ph.clone(), l, dm: dm.clone(), dcm: dcm.clone(), di: di.clone(), dci: dci.clone() }));
        }
        for ll in [0usize, l + 1, l + m + 1, l + m + 2, 1 << 40] {
            if ll != l {
                v.push((format!("L={ll}/{src}-blindproof"), Case::BlindProofVerify { pk: pk.clone(), proof: pf.clone(), header: header.clone(), ph: ph.clone(), l: ll, dm: dm.clone(), dcm: dcm.clone(), di: di.clone(), dci: dci.clone() }));
            }
        }
        // re-labelling of a committed message as signer message (ascending lists kept)
        if let Some((&j, cmj)) = dci.last().zip(dcm.last()) {
            let mut di2 = di.clone();
            let mut dm2 = dm.clone();
            di2.push(l + 1 + j);
            dm2.push(cmj.clone());
            v.push((format!("relabel/{src}-blindproof"), Case::BlindProofVerify { pk: pk.clone(), proof: pf.clone(), header: header.clone(), ph: ph.clone(), l, dm: dm2, dcm: dcm[..dcm.len() - 1].to_vec(), di: di2, dci: dci[..dci.len() - 1].to_vec() }));
        }
    }
    let _ = ctx;
    v
}

// ---------------------------------------------------------------- scenarios

fn single<X: Sx>(ctx: &Ctx, idx: u64, part: usize) {
    let mut r = ctx.rng("c10", idx);
    for (label, c) in det_cases::<X>(ctx, &mut r, part) {
        let exp = run_ref(X::ID, &c);
        compare::<X>(ctx, &c, &label, &exp, 1);
        if label.ends_with("0") {
            ctx.sample(json!({"suite":name::<X>(),"kind":c.kind(),"label":label,"reference":exp.as_ref().map(|v| hx(v)).map_err(|_| "refused")}));
        }
    }
}

fn decisions<X: Sx>(ctx: &Ctx, idx: u64, l: usize, m: usize) {
    let mut r = ctx.rng("c10d", idx);
    for (label, c) in decision_cases::<X>(ctx, &mut r, l, m) {
        let exp = run_ref(X::ID, &c);
        compare::<X>(ctx, &c, &format!("{label}/L{l}M{m}"), &exp, 1);
    }
}

/// The drafts' defaults: an absent optional argument behaves exactly like the empty one. Every combination of
/// None / Some(empty) for every optional argument must give the same bytes (deterministic operations) and the
/// same decision (verifiers), also crosswise (artefact made with one combination, checked with another).
fn options<X: Sx>(ctx: &Ctx, idx: u64) {
    let mut r = ctx.rng("c10o", idx);
    let (sk, pk) = keypair::<X>(&mut r);
    let e: &[u8] = &[];
    let ev: &[Vec<u8>] = &[];
    let ei: &[usize] = &[];
    let opt_b = [None, Some(e)];
    let opt_m = [None, Some(ev)];
    let opt_i = [None, Some(ei)];
    let bad = |what: &str, detail: String| ctx.violation(&format!("C10:none-vs-empty/{}", what), json!({"suite":name::<X>(),"detail":detail}));
    // L = 0 signature: messages and header both optional
    let mut sigs = vec![];
    for h in opt_b {
        for m in opt_m {
            let case = format!("{}/options/sign/h{}m{}", name::<X>(), h.is_some(), m.is_some());
            ctx.distinct(&case);
            match ctx.call("sign", &case, None, || Sig::<X>::sign(m, &sk, &pk, h)).value {
                Some(s) => sigs.push(s),
                None => bad("sign", case),
            }
        }
    }
    if sigs.windows(2).any(|w| w[0].to_bytes() != w[1].to_bytes()) {
        bad("sign", "signatures differ between None/empty combinations".into());
    }
    let Some(sig) = sigs.pop() else { return };
    for h in opt_b {
        for m in opt_m {
            let case = format!("{}/options/verify/h{}m{}", name::<X>(), h.is_some(), m.is_some());
            ctx.distinct(&case);
            if !ctx.call("verify", &case, None, || sig.verify(&pk, m, h)).outcome.is_ok() {
                bad("verify", case);
            }
        }
    }
    // proofs over the empty message list and over a non-empty one with nothing disclosed
    let msgs = gen_messages(&mut r, 2, 0);
    let sig2 = Sig::<X>::sign(Some(&msgs), &sk, &pk, None).unwrap();
    for (mlist, sg) in [(None, &sig), (Some(&msgs[..]), &sig2)] {
        for h in opt_b {
            for ph in opt_b {
                for di in opt_i {
                    let case = format!("{}/options/proof/L{}h{}p{}d{}", name::<X>(), mlist.map(|m| m.len()).unwrap_or(0), h.is_some(), ph.is_some(), di.is_some());
                    ctx.distinct(&case);
                    let Some(p) = ctx.call("proof_gen", &case, None, || Pok::<X>::proof_gen(&pk, &sg.to_bytes(), h, ph, mlist, di)).value else {
                        bad("proof_gen", case);
                        continue;
                    };
                    // verify with every combination on the verifier side
                    for h2 in opt_b {
                        for ph2 in opt_b {
                            for (dm2, di2) in [(None, None), (Some(ev), Some(ei)), (None, Some(ei)), (Some(ev), None)] {
                                if !ctx.call("proof_verify", &case, None, || p.proof_verify(&pk, dm2, di2, h2, ph2)).outcome.is_ok() {
                                    bad("proof_verify", format!("{} verified with h{} p{} m{} d{}", case, h2.is_some(), ph2.is_some(), dm2.is_some(), di2.is_some()));
                                }
                            }
                        }
                    }
                }
            }
        }
    }
    // blind interface
    for cmo in opt_m {
        let case = format!("{}/options/commit/c{}", name::<X>(), cmo.is_some());
        ctx.distinct(&case);
        let Some((com, bf)) = ctx.call("commit", &case, None, || Com::<X>::commit(cmo)).value else {
            bad("commit", case);
            continue;
        };
        let cwp = com.to_bytes();
        let mut bsigs = vec![];
        for h in opt_b {
            for m in opt_m {
                match ctx.call("blind_sign", &case, None, || BSig::<X>::blind_sign(&sk, &pk, Some(&cwp), h, m)).value {
                    Some(b) => bsigs.push(b),
                    None => bad("blind_sign", case.clone()),
                }
            }
        }
        if bsigs.windows(2).any(|w| w[0].to_bytes() != w[1].to_bytes()) {
            bad("blind_sign", "blind signatures differ between None/empty combinations".into());
        }
        let Some(bs) = bsigs.pop() else { continue };
        for h in opt_b {
            for m in opt_m {
                for c2 in opt_m {
                    if !ctx.call("verify_blind_sign", &case, None, || bs.verify_blind_sign(&pk, h, m, c2, Some(&bf))).outcome.is_ok() {
                        bad("verify_blind_sign", format!("{} h{} m{} c{}", case, h.is_some(), m.is_some(), c2.is_some()));
                    }
                }
            }
        }
        for (m, c2, d, dc) in [(None, None, None, None), (Some(ev), Some(ev), Some(ei), Some(ei)), (None, Some(ev), Some(ei), None), (Some(ev), None, None, Some(ei))] {
            let Some(p) = ctx.call("blind_proof_gen", &case, None, || Pok::<X>::blind_proof_gen(&pk, &bs.to_bytes(), None, None, m, c2, d, dc, Some(&bf))).value else {
                bad("blind_proof_gen", case.clone());
                continue;
            };
            for l in [None, Some(0usize)] {
                for (m2, c3, d2, dc2) in [(None, None, None, None), (Some(ev), Some(ev), Some(ei), Some(ei)), (Some(ev), None, Some(ei), None)] {
                    for h2 in opt_b {
                        if !ctx.call("blind_proof_verify", &case, None, || p.blind_proof_verify(&pk, h2, h2, l, m2, c3, d2, dc2)).outcome.is_ok() {
                            bad("blind_proof_verify", format!("{} L{:?} m{} c{} h{}", case, l, m2.is_some(), c3.is_some(), h2.is_some()));
                        }
                    }
                }
            }
        }
    }
    // no commitment at all: None and the empty octet string are the same request
    let a = BSig::<X>::blind_sign(&sk, &pk, None, None, None).map(|b| b.to_bytes());
    let b = BSig::<X>::blind_sign(&sk, &pk, Some(e), Some(e), Some(ev)).map(|b| b.to_bytes());
    if a.is_err() || a.as_ref().ok() != b.as_ref().ok() {
        bad("blind_sign-without-commitment", "None vs empty".into());
    } else if let Ok(bytes) = a {
        let bs = BSig::<X>::from_bytes(&bytes).unwrap();
        for (c2, bfo) in [(None, None), (Some(ev), None)] {
            if !ctx.call("verify_blind_sign", "options/no-commitment", None, || bs.verify_blind_sign(&pk, None, None, c2, bfo)).outcome.is_ok() {
                bad("verify_blind_sign-without-commitment", format!("c{}", c2.is_some()));
            }
        }
    }
    // generators: None == empty api id ; key generation: None == empty key_info
    if Generators::create::<X::CS>(5, None).values != Generators::create::<X::CS>(5, Some(e)).values {
        bad("generators", "None vs empty api id".into());
    }
    let ikm = rand_bytes(&mut r, 32);
    if Kp::<X>::generate(&ikm, None, None).ok().map(|k| k.private_key().to_bytes()) != Kp::<X>::generate(&ikm, Some(e), None).ok().map(|k| k.private_key().to_bytes()) {
        bad("key_gen", "None vs empty key_info".into());
    }
    ctx.count("option_equivalence_sweeps", 1);
}

static OVERLAPS: OnceLock<Mutex<BTreeSet<(String, String)>>> = OnceLock::new();
static ACTIVE: OnceLock<Mutex<BTreeMap<&'static str, usize>>> = OnceLock::new();
static OPS_THREADED: AtomicUsize = AtomicUsize::new(0);

/// The same case list executed by T threads in shuffled order; every output is compared with the
/// single-threaded reference result; the set of concurrently active operation-kind pairs is recorded.
fn threaded<X: Sx>(ctx: &Ctx, idx: u64, threads: usize) {
    let mut r = ctx.rng("c10t", idx);
    let mut cases: Vec<(String, Case)> = vec![];
    for part in 0..4 {
        let mut c = det_cases::<X>(ctx, &mut r, part);
        // keep the interleaving workload light: drop the largest inputs
        c.retain(|(_, c)| match c {
            Case::Gens { count, .. } => *count <= 65,
            Case::Sign { msgs, header, .. } => msgs.len() <= 33 && header.as_ref().map(|h| h.len()).unwrap_or(0) < 1000,
            Case::H2S { msg, .. } => msg.len() <= 300,
            Case::KeyGen { info, .. } => info.as_ref().map(|i| i.len()).unwrap_or(0) < 1000,
            _ => true,
        });
        let keep = if ctx.quick() { 12 } else { 60 };
        while c.len() > keep {
            let k = rand_range(&mut r, c.len());
            c.swap_remove(k);
        }
        cases.extend(c);
    }
    cases.extend(decision_cases::<X>(ctx, &mut r, 3, 2).into_iter().filter(|(l, _)| l.starts_with("honest") || l.starts_with("bitflip") || l.starts_with("identity") || l.starts_with("trailing1/")));
    let expected: Vec<Out> = cases.iter().map(|(_, c)| run_ref(X::ID, c)).collect();
    let barrier = Barrier::new(threads);
    let scn = current_scenario();
    let overlaps = OVERLAPS.get_or_init(|| Mutex::new(BTreeSet::new()));
    let active = ACTIVE.get_or_init(|| Mutex::new(BTreeMap::new()));
    std::thread::scope(|sc| {
        for t in 0..threads {
            let (cases, expected, barrier, scn) = (&cases, &expected, &barrier, &scn);
            let mut tr = ctx.rng("c10t-thread", idx * 100 + t as u64);
            sc.spawn(move || {
                set_scenario(scn);
                let mut order: Vec<usize> = (0..cases.len()).collect();
                for i in (1..order.len()).rev() {
                    let j = rand_range(&mut tr, i + 1);
                    order.swap(i, j);
                }
                barrier.wait();
                for &k in &order {
                    let (label, c) = &cases[k];
                    // harness-side delay BETWEEN calls (the library has no internal suspension points)
                    let spin = rand_range(&mut tr, 200);
                    let t0 = std::time::Instant::now();
                    while t0.elapsed().as_micros() < spin as u128 {
                        std::hint::spin_loop();
                    }
                    {
                        let mut a = active.lock().unwrap();
                        let mut ov = overlaps.lock().unwrap();
                        for (other, n) in a.iter() {
                            if *n > 0 {
                                let (x, y) = if *other <= c.kind() { (*other, c.kind()) } else { (c.kind(), *other) };
                                ov.insert((x.to_string(), y.to_string()));
                            }
                        }
                        *a.entry(c.kind()).or_insert(0) += 1;
                    }
                    compare::<X>(ctx, c, &format!("{label}/T{threads}"), &expected[k], threads);
                    *active.lock().unwrap().get_mut(c.kind()).unwrap() -= 1;
                    OPS_THREADED.fetch_add(1, Ordering::Relaxed);
                }
            });
        }
    });
}

pub fn scenarios(ctx: &Ctx) -> Vec<Scenario> {
    let mut v = Vec::new();
    for part in 0..4usize {
        for rep in 0..ctx.t(1u64, 3u64) {
            let i = part as u64 * 10 + rep;
            v.push(scenario(format!("det/sha/part{part}"), move |c| single::<Sha>(c, i, part)));
            v.push(scenario(format!("det/shake/part{part}"), move |c| single::<Shake>(c, i + 5, part)));
        }
    }
    let lm: &[(usize, usize)] = ctx.t(&[(0, 0), (1, 1), (3, 2), (5, 0), (2, 4), (0, 3), (1, 6)][..], &[(0, 0), (1, 0), (0, 1), (1, 1), (3, 2), (5, 0), (2, 4), (8, 3), (16, 5), (33, 1)][..]);
    for rep in 0..ctx.t(1u64, 4u64) {
        for (k, &(l, m)) in lm.iter().enumerate() {
            let i = 100 + rep * 20 + k as u64;
            v.push(scenario(format!("decisions/sha/L{l}M{m}"), move |c| decisions::<Sha>(c, i, l, m)));
            v.push(scenario(format!("decisions/shake/L{l}M{m}"), move |c| decisions::<Shake>(c, i + 10, l, m)));
        }
    }
    for rep in 0..ctx.t(1u64, 4u64) {
        v.push(scenario("options/sha", move |c| options::<Sha>(c, 900 + rep)));
        v.push(scenario("options/shake", move |c| options::<Shake>(c, 950 + rep)));
    }
    // schedules: 2 / 8 / 16 threads, three repetitions
    for (k, &t) in [2usize, 8, 16].iter().enumerate() {
        for rep in 0..ctx.t(1u64, 3u64) {
            let i = 500 + k as u64 * 10 + rep;
            v.push(scenario(format!("threaded/sha/T{t}"), move |c| threaded::<Sha>(c, i, t)));
            v.push(scenario(format!("threaded/shake/T{t}"), move |c| threaded::<Shake>(c, i + 5, t)));
        }
    }
    v
}

pub fn finish(ctx: &Ctx) {
    let ov: Vec<String> = OVERLAPS.get().map(|m| m.lock().unwrap().iter().map(|(a, b)| format!("{a}||{b}")).collect()).unwrap_or_default();
    let n = ov.len();
    ctx.set_extra("threaded_operations", json!(OPS_THREADED.load(Ordering::Relaxed)));
    ctx.set_extra("distinct_concurrent_operation_kind_pairs", json!(n));
    ctx.set_extra("concurrent_pairs_observed", json!(ov));
    ctx.count("concurrent_kind_pairs", n as u64);
    if ctx.only_scenario.is_none() && n < 20 {
        ctx.inconclusive(&format!("schedule part observed only {n} distinct concurrently active operation-kind pairs (< 20)"));
    }
}

//! Independent reference implementation of draft-irtf-cfrg-bbs-signatures-08 and of the
//! Blind-BBS-01 operations as amended by the repository (DESIGN.md §4).
//!
//! Written from the drafts / RFC 9380 directly on sha2 / sha3 and the group arithmetic of
//! `bls12_381_plus`. It deliberately shares NO code with zkryptium: no `ExpandMsg`, no `from_okm`,
//! no zkryptium type. Shared trusted base: the curve arithmetic, pairing and `hash_to_curve` of
//! `bls12_381_plus`, and the hash functions.

#![allow(non_snake_case)]

use bls12_381_plus::{
    multi_miller_loop, G1Affine, G1Projective, G2Affine, G2Prepared, G2Projective, Scalar,
};
use elliptic_curve::hash2curve::{ExpandMsgXmd, ExpandMsgXof};
use group::{Curve, Group};
use sha2::{Digest, Sha256};
use sha3::digest::{ExtendableOutput, Update, XofReader};
use sha3::Shake256;

#[derive(Clone, Copy, Debug, PartialEq, Eq, Hash)]
pub enum SuiteId {
    Sha,
    Shake,
}

pub const P1_SHA: &str = "a8ce256102840821a3e94ea9025e4662b205762f9776b3a766c872b948f1fd225e7c59698588e70d11406d161b4e28c9";
pub const P1_SHAKE: &str = "8929dfbc7e6642c4ed9cba0856e493f8b9d7d5fcb0c31ef8fdcd34d50648a56c795e106e9eada6e0bda386b414150755";

impl SuiteId {
    pub fn name(&self) -> &'static str {
        match self {
            SuiteId::Sha => "sha256",
            SuiteId::Shake => "shake256",
        }
    }
    pub fn ciphersuite_id(&self) -> &'static [u8] {
        match self {
            SuiteId::Sha => b"BBS_BLS12381G1_XMD:SHA-256_SSWU_RO_",
            SuiteId::Shake => b"BBS_BLS12381G1_XOF:SHAKE-256_SSWU_RO_",
        }
    }
    pub fn api_id(&self) -> Vec<u8> {
        [self.ciphersuite_id(), b"H2G_HM2S_"].concat()
    }
    pub fn blind_api_id(&self) -> Vec<u8> {
        [self.ciphersuite_id(), b"BLIND_H2G_HM2S_"].concat()
    }
    pub fn p1(&self) -> G1Projective {
        let h = match self {
            SuiteId::Sha => P1_SHA,
            SuiteId::Shake => P1_SHAKE,
        };
        let b: [u8; 48] = hex::decode(h).unwrap().try_into().unwrap();
        G1Projective::from(G1Affine::from_compressed(&b).unwrap())
    }
}

// ---------------------------------------------------------------- RFC 9380 expand_message

fn expand_message_xmd(msg: &[u8], dst: &[u8], len: usize) -> Vec<u8> {
    assert!(dst.len() <= 255);
    let ell = (len + 31) / 32;
    assert!(ell <= 255 && len <= 65535);
    let mut dst_prime = dst.to_vec();
    dst_prime.push(dst.len() as u8);
    let mut h = Sha256::new();
    Digest::update(&mut h, [0u8; 64]);
    Digest::update(&mut h, msg);
    Digest::update(&mut h, [(len >> 8) as u8, len as u8]);
    Digest::update(&mut h, [0u8]);
    Digest::update(&mut h, &dst_prime);
    let b0 = h.finalize();
    let mut h = Sha256::new();
    Digest::update(&mut h, &b0);
    Digest::update(&mut h, [1u8]);
    Digest::update(&mut h, &dst_prime);
    let mut bi = h.finalize();
    let mut out = bi.to_vec();
    for i in 2..=ell {
        let x: Vec<u8> = b0.iter().zip(bi.iter()).map(|(a, b)| a ^ b).collect();
        let mut h = Sha256::new();
        Digest::update(&mut h, &x);
        Digest::update(&mut h, [i as u8]);
        Digest::update(&mut h, &dst_prime);
        bi = h.finalize();
        out.extend_from_slice(&bi);
    }
    out.truncate(len);
    out
}

fn expand_message_xof(msg: &[u8], dst: &[u8], len: usize) -> Vec<u8> {
    assert!(dst.len() <= 255 && len <= 65535);
    let mut h = Shake256::default();
    h.update(msg);
    h.update(&[(len >> 8) as u8, len as u8]);
    h.update(dst);
    h.update(&[dst.len() as u8]);
    let mut out = vec![0u8; len];
    h.finalize_xof().read(&mut out);
    out
}

pub fn expand_message(s: SuiteId, msg: &[u8], dst: &[u8], len: usize) -> Vec<u8> {
    // RFC 9380 section 5.3.3: a DST longer than 255 octets is replaced by H("H2C-OVERSIZE-DST-" || DST)
    // (SHA-256 digest for XMD; 2k/8 = 32 octets of SHAKE-256 output for XOF, k = 128)
    let short: Vec<u8>;
    let dst = if dst.len() > 255 {
        short = match s {
            SuiteId::Sha => {
                let mut h = Sha256::new();
                Digest::update(&mut h, b"H2C-OVERSIZE-DST-");
                Digest::update(&mut h, dst);
                h.finalize().to_vec()
            }
            SuiteId::Shake => {
                let mut h = Shake256::default();
                h.update(b"H2C-OVERSIZE-DST-");
                h.update(dst);
                let mut out = vec![0u8; 32];
                h.finalize_xof().read(&mut out);
                out
            }
        };
        &short[..]
    } else {
        dst
    };
    match s {
        SuiteId::Sha => expand_message_xmd(msg, dst, len),
        SuiteId::Shake => expand_message_xof(msg, dst, len),
    }
}

/// OS2IP(bytes) mod r by Horner in the scalar field.
pub fn os2ip_mod_r(bytes: &[u8]) -> Scalar {
    let mut acc = Scalar::ZERO;
    let b256 = Scalar::from(256u64);
    for &b in bytes {
        acc = acc * b256 + Scalar::from(b as u64);
    }
    acc
}

pub fn i2osp8(x: u64) -> [u8; 8] {
    x.to_be_bytes()
}

pub fn hash_to_scalar(s: SuiteId, msg: &[u8], dst: &[u8]) -> Result<Scalar, &'static str> {
    if dst.len() > 255 {
        return Err("dst > 255");
    }
    Ok(os2ip_mod_r(&expand_message(s, msg, dst, 48)))
}

fn hash_to_curve_g1(s: SuiteId, msg: &[u8], dst: &[u8]) -> G1Projective {
    match s {
        SuiteId::Sha => G1Projective::hash::<ExpandMsgXmd<Sha256>>(msg, dst),
        SuiteId::Shake => G1Projective::hash::<ExpandMsgXof<Shake256>>(msg, dst),
    }
}

// ---------------------------------------------------------------- encodings (strict, per draft)

pub fn scalar_be(s: &Scalar) -> [u8; 32] {
    s.to_be_bytes()
}
pub fn g1_c(p: &G1Projective) -> [u8; 48] {
    p.to_affine().to_compressed()
}
pub fn g2_c(p: &G2Projective) -> [u8; 96] {
    p.to_affine().to_compressed()
}

/// scalar in [0, r): canonical big-endian
pub fn octets_to_scalar(b: &[u8]) -> Option<Scalar> {
    let a: [u8; 32] = b.try_into().ok()?;
    Option::<Scalar>::from(Scalar::from_be_bytes(&a))
}

/// valid G1 point (curve + subgroup, canonical compressed encoding); identity allowed here
pub fn octets_to_g1(b: &[u8]) -> Option<G1Projective> {
    let a: [u8; 48] = b.try_into().ok()?;
    Option::<G1Affine>::from(G1Affine::from_compressed(&a)).map(G1Projective::from)
}

pub fn octets_to_pubkey(b: &[u8]) -> Option<G2Projective> {
    let a: [u8; 96] = b.try_into().ok()?;
    let p = Option::<G2Affine>::from(G2Affine::from_compressed(&a)).map(G2Projective::from)?;
    if bool::from(p.is_identity()) {
        return None;
    }
    Some(p)
}

pub fn octets_to_signature(b: &[u8]) -> Option<(G1Projective, Scalar)> {
    if b.len() != 80 {
        return None;
    }
    let A = octets_to_g1(&b[..48])?;
    if bool::from(A.is_identity()) {
        return None;
    }
    let e = octets_to_scalar(&b[48..])?;
    if e == Scalar::ZERO {
        return None;
    }
    Some((A, e))
}

#[derive(Clone, Debug)]
pub struct Proof {
    pub Abar: G1Projective,
    pub Bbar: G1Projective,
    pub D: G1Projective,
    pub e_cap: Scalar,
    pub r1_cap: Scalar,
    pub r3_cap: Scalar,
    pub m_cap: Vec<Scalar>,
    pub c: Scalar,
}

impl Proof {
    pub fn to_bytes(&self) -> Vec<u8> {
        let mut v = Vec::new();
        v.extend_from_slice(&g1_c(&self.Abar));
        v.extend_from_slice(&g1_c(&self.Bbar));
        v.extend_from_slice(&g1_c(&self.D));
        v.extend_from_slice(&scalar_be(&self.e_cap));
        v.extend_from_slice(&scalar_be(&self.r1_cap));
        v.extend_from_slice(&scalar_be(&self.r3_cap));
        for m in &self.m_cap {
            v.extend_from_slice(&scalar_be(m));
        }
        v.extend_from_slice(&scalar_be(&self.c));
        v
    }
    /// true if any response scalar is zero (outside the decision-equality domain, DESIGN §4)
    pub fn has_zero_scalar(&self) -> bool {
        self.e_cap == Scalar::ZERO
            || self.r1_cap == Scalar::ZERO
            || self.r3_cap == Scalar::ZERO
            || self.c == Scalar::ZERO
            || self.m_cap.iter().any(|m| *m == Scalar::ZERO)
    }
}

/// draft-08 octets_to_proof: exact framing, valid non-identity points, scalars < r.
pub fn octets_to_proof(b: &[u8]) -> Option<Proof> {
    if b.len() < 272 || (b.len() - 272) % 32 != 0 {
        return None;
    }
    let mut pts = Vec::new();
    for i in 0..3 {
        let p = octets_to_g1(&b[48 * i..48 * (i + 1)])?;
        if bool::from(p.is_identity()) {
            return None;
        }
        pts.push(p);
    }
    let mut sc = Vec::new();
    for ch in b[144..].chunks(32) {
        sc.push(octets_to_scalar(ch)?);
    }
    let c = sc.pop()?;
    Some(Proof {
        Abar: pts[0],
        Bbar: pts[1],
        D: pts[2],
        e_cap: sc[0],
        r1_cap: sc[1],
        r3_cap: sc[2],
        m_cap: sc[3..].to_vec(),
        c,
    })
}

// ---------------------------------------------------------------- keys

pub fn key_gen(
    s: SuiteId,
    ikm: &[u8],
    key_info: &[u8],
    key_dst: Option<&[u8]>,
) -> Result<Scalar, &'static str> {
    if ikm.len() < 32 {
        return Err("ikm < 32");
    }
    if key_info.len() > 65535 {
        return Err("key_info > 65535");
    }
    let default_dst = [&s.api_id()[..], b"KEYGEN_DST_"].concat();
    let dst = key_dst.unwrap_or(&default_dst);
    let mut inp = ikm.to_vec();
    inp.extend_from_slice(&[(key_info.len() >> 8) as u8, key_info.len() as u8]);
    inp.extend_from_slice(key_info);
    hash_to_scalar(s, &inp, dst)
}

pub fn sk_to_pk(sk: &Scalar) -> G2Projective {
    G2Projective::GENERATOR * sk
}

// ---------------------------------------------------------------- generators, messages, domain

pub fn create_generators(s: SuiteId, count: usize, api_id: &[u8]) -> Vec<G1Projective> {
    let seed_dst = [api_id, b"SIG_GENERATOR_SEED_"].concat();
    let gen_dst = [api_id, b"SIG_GENERATOR_DST_"].concat();
    let gen_seed = [api_id, b"MESSAGE_GENERATOR_SEED"].concat();
    let mut v = expand_message(s, &gen_seed, &seed_dst, 48);
    let mut out = Vec::with_capacity(count);
    for i in 1..=count {
        let mut inp = v.clone();
        inp.extend_from_slice(&i2osp8(i as u64));
        v = expand_message(s, &inp, &seed_dst, 48);
        out.push(hash_to_curve_g1(s, &v, &gen_dst));
    }
    out
}

pub fn messages_to_scalars(
    s: SuiteId,
    msgs: &[Vec<u8>],
    api_id: &[u8],
) -> Result<Vec<Scalar>, &'static str> {
    let dst = [api_id, b"MAP_MSG_TO_SCALAR_AS_HASH_"].concat();
    msgs.iter().map(|m| hash_to_scalar(s, m, &dst)).collect()
}

pub fn calculate_domain(
    s: SuiteId,
    pk: &G2Projective,
    q1: &G1Projective,
    h_points: &[G1Projective],
    header: &[u8],
    api_id: &[u8],
) -> Result<Scalar, &'static str> {
    let dst = [api_id, b"H2S_"].concat();
    let mut inp = g2_c(pk).to_vec();
    inp.extend_from_slice(&i2osp8(h_points.len() as u64));
    inp.extend_from_slice(&g1_c(q1));
    for h in h_points {
        inp.extend_from_slice(&g1_c(h));
    }
    inp.extend_from_slice(api_id);
    inp.extend_from_slice(&i2osp8(header.len() as u64));
    inp.extend_from_slice(header);
    hash_to_scalar(s, &inp, &dst)
}

fn compute_b(
    s: SuiteId,
    gens: &[G1Projective],
    domain: &Scalar,
    msgs: &[Scalar],
) -> G1Projective {
    let mut b = s.p1() + gens[0] * domain;
    for (h, m) in gens[1..].iter().zip(msgs) {
        b += h * m;
    }
    b
}

// ---------------------------------------------------------------- signatures

pub fn core_sign(
    s: SuiteId,
    sk: &Scalar,
    pk: &G2Projective,
    gens: &[G1Projective],
    header: &[u8],
    msgs: &[Scalar],
    api_id: &[u8],
) -> Result<(G1Projective, Scalar), &'static str> {
    if gens.len() != msgs.len() + 1 {
        return Err("generators");
    }
    let dst = [api_id, b"H2S_"].concat();
    let domain = calculate_domain(s, pk, &gens[0], &gens[1..], header, api_id)?;
    let mut inp = scalar_be(sk).to_vec();
    for m in msgs {
        inp.extend_from_slice(&scalar_be(m));
    }
    inp.extend_from_slice(&scalar_be(&domain));
    let e = hash_to_scalar(s, &inp, &dst)?;
    let b = compute_b(s, gens, &domain, msgs);
    let inv = Option::<Scalar>::from((sk + e).invert()).ok_or("sk+e=0")?;
    let a = b * inv;
    if bool::from(a.is_identity()) {
        return Err("A identity");
    }
    Ok((a, e))
}

pub fn sig_bytes(a: &G1Projective, e: &Scalar) -> [u8; 80] {
    let mut o = [0u8; 80];
    o[..48].copy_from_slice(&g1_c(a));
    o[48..].copy_from_slice(&scalar_be(e));
    o
}

pub fn sign(
    s: SuiteId,
    sk: &Scalar,
    pk: &G2Projective,
    header: &[u8],
    msgs: &[Vec<u8>],
) -> Result<[u8; 80], &'static str> {
    let api = s.api_id();
    let ms = messages_to_scalars(s, msgs, &api)?;
    let gens = create_generators(s, msgs.len() + 1, &api);
    let (a, e) = core_sign(s, sk, pk, &gens, header, &ms, &api)?;
    Ok(sig_bytes(&a, &e))
}

fn pairing_check(a: &G1Projective, w: &G2Projective, b: &G1Projective) -> bool {
    // e(a, w) * e(b, -BP2) == 1
    let t1 = (&a.to_affine(), &G2Prepared::from(w.to_affine()));
    let t2 = (
        &b.to_affine(),
        &G2Prepared::from(-G2Affine::generator()),
    );
    bool::from(multi_miller_loop(&[t1, t2]).final_exponentiation().is_identity())
}

pub fn core_verify(
    s: SuiteId,
    pk: &G2Projective,
    a: &G1Projective,
    e: &Scalar,
    gens: &[G1Projective],
    header: &[u8],
    msgs: &[Scalar],
    api_id: &[u8],
) -> bool {
    if gens.len() != msgs.len() + 1 {
        return false;
    }
    let domain = match calculate_domain(s, pk, &gens[0], &gens[1..], header, api_id) {
        Ok(d) => d,
        Err(_) => return false,
    };
    let b = compute_b(s, gens, &domain, msgs);
    pairing_check(a, &(pk + G2Projective::GENERATOR * e), &b)
}

/// Full draft Verify on octets (strict decoding of key and signature).
pub fn verify(s: SuiteId, pk: &[u8], sig: &[u8], header: &[u8], msgs: &[Vec<u8>]) -> bool {
    let Some(w) = octets_to_pubkey(pk) else { return false };
    let Some((a, e)) = octets_to_signature(sig) else { return false };
    let api = s.api_id();
    let Ok(ms) = messages_to_scalars(s, msgs, &api) else { return false };
    let gens = create_generators(s, msgs.len() + 1, &api);
    core_verify(s, &w, &a, &e, &gens, header, &ms, &api)
}

// ---------------------------------------------------------------- proofs

pub fn seeded_random_scalars(s: SuiteId, seed: &[u8], dst: &[u8], count: usize) -> Vec<Scalar> {
    let v = expand_message(s, seed, dst, 48 * count);
    v.chunks(48).map(os2ip_mod_r).collect()
}

pub fn challenge(
    s: SuiteId,
    disclosed: &[(usize, Scalar)],
    abar: &G1Projective,
    bbar: &G1Projective,
    d: &G1Projective,
    t1: &G1Projective,
    t2: &G1Projective,
    domain: &Scalar,
    ph: &[u8],
    api_id: &[u8],
) -> Result<Scalar, &'static str> {
    let dst = [api_id, b"H2S_"].concat();
    let mut c = i2osp8(disclosed.len() as u64).to_vec();
    for (i, m) in disclosed {
        c.extend_from_slice(&i2osp8(*i as u64));
        c.extend_from_slice(&scalar_be(m));
    }
    for p in [abar, bbar, d, t1, t2] {
        c.extend_from_slice(&g1_c(p));
    }
    c.extend_from_slice(&scalar_be(domain));
    c.extend_from_slice(&i2osp8(ph.len() as u64));
    c.extend_from_slice(ph);
    hash_to_scalar(s, &c, &dst)
}

/// CoreProofGen with explicit random scalars (r1, r2, e~, r1~, r3~, m~_1..m~_U).
pub fn core_proof_gen(
    s: SuiteId,
    pk: &G2Projective,
    a: &G1Projective,
    e: &Scalar,
    gens: &[G1Projective],
    header: &[u8],
    ph: &[u8],
    msgs: &[Scalar],
    disclosed_idx: &[usize],
    api_id: &[u8],
    rnd: &[Scalar],
) -> Result<Proof, &'static str> {
    let l = msgs.len();
    if gens.len() != l + 1 {
        return Err("generators");
    }
    let mut di = disclosed_idx.to_vec();
    di.sort();
    di.dedup();
    if di.iter().any(|&i| i >= l) {
        return Err("index");
    }
    let undisclosed: Vec<usize> = (0..l).filter(|i| !di.contains(i)).collect();
    let u = undisclosed.len();
    if rnd.len() != 5 + u {
        return Err("randoms");
    }
    let domain = calculate_domain(s, pk, &gens[0], &gens[1..], header, api_id)?;
    let b = compute_b(s, gens, &domain, msgs);
    let (r1, r2, et, r1t, r3t) = (rnd[0], rnd[1], rnd[2], rnd[3], rnd[4]);
    let mt = &rnd[5..];
    let d = b * r2;
    let abar = a * (r1 * r2);
    let bbar = d * r1 - abar * e;
    let t1 = abar * et + d * r1t;
    let mut t2 = d * r3t;
    for (k, &j) in undisclosed.iter().enumerate() {
        t2 += gens[1 + j] * mt[k];
    }
    let disclosed: Vec<(usize, Scalar)> = di.iter().map(|&i| (i, msgs[i])).collect();
    let c = challenge(s, &disclosed, &abar, &bbar, &d, &t1, &t2, &domain, ph, api_id)?;
    let r3 = Option::<Scalar>::from(r2.invert()).ok_or("r2=0")?;
    Ok(Proof {
        Abar: abar,
        Bbar: bbar,
        D: d,
        e_cap: et + e * c,
        r1_cap: r1t - r1 * c,
        r3_cap: r3t - r3 * c,
        m_cap: undisclosed
            .iter()
            .enumerate()
            .map(|(k, &j)| mt[k] + msgs[j] * c)
            .collect(),
        c,
    })
}

/// CoreProofVerify on a decoded proof. `disclosed` = (index, scalar) pairs as the verifier got them.
pub fn core_proof_verify(
    s: SuiteId,
    pk: &G2Projective,
    proof: &Proof,
    gens: &[G1Projective],
    header: &[u8],
    ph: &[u8],
    disclosed: &[(usize, Scalar)],
    api_id: &[u8],
) -> bool {
    let u = proof.m_cap.len();
    let r = disclosed.len();
    let l = u + r;
    if gens.len() != l + 1 {
        return false;
    }
    // indexes: in range, strictly ascending (no duplicates)
    for w in disclosed.windows(2) {
        if w[0].0 >= w[1].0 {
            return false;
        }
    }
    if disclosed.iter().any(|(i, _)| *i >= l) {
        return false;
    }
    // draft: proof points must not be the identity (octets_to_proof); enforced here as well so
    // that objects injected without going through octets are judged the same way
    if bool::from(proof.Abar.is_identity())
        || bool::from(proof.Bbar.is_identity())
        || bool::from(proof.D.is_identity())
    {
        return false;
    }
    let undisclosed: Vec<usize> = (0..l)
        .filter(|i| !disclosed.iter().any(|(j, _)| j == i))
        .collect();
    let Ok(domain) = calculate_domain(s, pk, &gens[0], &gens[1..], header, api_id) else {
        return false;
    };
    let t1 = proof.Bbar * proof.c + proof.Abar * proof.e_cap + proof.D * proof.r1_cap;
    let mut bv = s.p1() + gens[0] * domain;
    for (i, m) in disclosed {
        bv += gens[1 + i] * m;
    }
    let mut t2 = bv * proof.c + proof.D * proof.r3_cap;
    for (k, &j) in undisclosed.iter().enumerate() {
        t2 += gens[1 + j] * proof.m_cap[k];
    }
    let Ok(c) = challenge(
        s, disclosed, &proof.Abar, &proof.Bbar, &proof.D, &t1, &t2, &domain, ph, api_id,
    ) else {
        return false;
    };
    if c != proof.c {
        return false;
    }
    pairing_check(&proof.Abar, pk, &proof.Bbar)
}

pub fn proof_gen(
    s: SuiteId,
    pk: &G2Projective,
    sig: &[u8],
    header: &[u8],
    ph: &[u8],
    msgs: &[Vec<u8>],
    disclosed_idx: &[usize],
    rnd: &[Scalar],
) -> Result<Vec<u8>, &'static str> {
    let (a, e) = octets_to_signature(sig).ok_or("sig")?;
    let api = s.api_id();
    let ms = messages_to_scalars(s, msgs, &api)?;
    let gens = create_generators(s, msgs.len() + 1, &api);
    Ok(core_proof_gen(s, pk, &a, &e, &gens, header, ph, &ms, disclosed_idx, &api, rnd)?.to_bytes())
}

/// Draft ProofVerify on octets. Disclosed indexes must be given ascending, one message each.
pub fn proof_verify(
    s: SuiteId,
    pk: &[u8],
    proof: &[u8],
    header: &[u8],
    ph: &[u8],
    disclosed_msgs: &[Vec<u8>],
    disclosed_idx: &[usize],
) -> bool {
    let Some(w) = octets_to_pubkey(pk) else { return false };
    let Some(p) = octets_to_proof(proof) else { return false };
    proof_verify_decoded(s, &w, &p, header, ph, disclosed_msgs, disclosed_idx)
}

pub fn proof_verify_decoded(
    s: SuiteId,
    w: &G2Projective,
    p: &Proof,
    header: &[u8],
    ph: &[u8],
    disclosed_msgs: &[Vec<u8>],
    disclosed_idx: &[usize],
) -> bool {
    if disclosed_msgs.len() != disclosed_idx.len() {
        return false;
    }
    let api = s.api_id();
    let Ok(ms) = messages_to_scalars(s, disclosed_msgs, &api) else { return false };
    let l = p.m_cap.len() + disclosed_idx.len();
    let gens = create_generators(s, l + 1, &api);
    let disclosed: Vec<(usize, Scalar)> = disclosed_idx.iter().copied().zip(ms).collect();
    core_proof_verify(s, w, p, &gens, header, ph, &disclosed, &api)
}

// ---------------------------------------------------------------- blind extension (as amended by the repository)

pub fn blind_generators(s: SuiteId, count: usize) -> Vec<G1Projective> {
    let api = [b"BLIND_".as_slice(), &s.blind_api_id()].concat();
    create_generators(s, count, &api)
}

fn blind_challenge(
    s: SuiteId,
    c: &G1Projective,
    cbar: &G1Projective,
    gens: &[G1Projective],
    api_id: &[u8],
) -> Result<Scalar, &'static str> {
    if gens.is_empty() {
        return Err("generators");
    }
    let dst = [api_id, b"H2S_"].concat();
    let mut v = i2osp8((gens.len() - 1) as u64).to_vec();
    for g in gens {
        v.extend_from_slice(&g1_c(g));
    }
    v.extend_from_slice(&g1_c(c));
    v.extend_from_slice(&g1_c(cbar));
    hash_to_scalar(s, &v, &dst)
}

/// Commit with explicit random scalars (secret_prover_blind, s~, m~_1..m~_M).
pub fn commit(
    s: SuiteId,
    committed: &[Vec<u8>],
    rnd: &[Scalar],
) -> Result<(Vec<u8>, Scalar), &'static str> {
    let api = s.blind_api_id();
    let ms = messages_to_scalars(s, committed, &api)?;
    let m = ms.len();
    if rnd.len() != m + 2 {
        return Err("randoms");
    }
    let gens = blind_generators(s, m + 1);
    let (blind, st, mt) = (rnd[0], rnd[1], &rnd[2..]);
    let mut c = gens[0] * blind;
    let mut cbar = gens[0] * st;
    for i in 0..m {
        c += gens[1 + i] * ms[i];
        cbar += gens[1 + i] * mt[i];
    }
    let ch = blind_challenge(s, &c, &cbar, &gens, &api)?;
    let mut out = g1_c(&c).to_vec();
    out.extend_from_slice(&scalar_be(&(st + blind * ch)));
    for i in 0..m {
        out.extend_from_slice(&scalar_be(&(mt[i] + ms[i] * ch)));
    }
    out.extend_from_slice(&scalar_be(&ch));
    Ok((out, blind))
}

/// Strict decoding + CoreCommitVerify. Returns the commitment point (identity for empty input).
pub fn validate_commit(s: SuiteId, cwp: &[u8]) -> Result<G1Projective, &'static str> {
    if cwp.is_empty() {
        return Ok(G1Projective::IDENTITY);
    }
    if cwp.len() < 112 || (cwp.len() - 112) % 32 != 0 {
        return Err("length");
    }
    let c = octets_to_g1(&cwp[..48]).ok_or("point")?;
    let mut sc = Vec::new();
    for ch in cwp[48..].chunks(32) {
        sc.push(octets_to_scalar(ch).ok_or("scalar")?);
    }
    let chal = sc.pop().unwrap();
    let s_cap = sc[0];
    let m_cap = &sc[1..];
    let m = m_cap.len();
    let api = s.blind_api_id();
    let gens = blind_generators(s, m + 1);
    let mut cbar = gens[0] * s_cap;
    for i in 0..m {
        cbar += gens[1 + i] * m_cap[i];
    }
    cbar -= c * chal;
    let cv = blind_challenge(s, &c, &cbar, &gens, &api)?;
    if cv != chal {
        return Err("challenge");
    }
    Ok(c)
}

pub fn blind_sign(
    s: SuiteId,
    sk: &Scalar,
    pk: &G2Projective,
    cwp: &[u8],
    header: &[u8],
    msgs: &[Vec<u8>],
) -> Result<[u8; 80], &'static str> {
    let api = s.blind_api_id();
    let c = validate_commit(s, cwp)?;
    let m = if cwp.is_empty() { 0 } else { (cwp.len() - 112) / 32 };
    let ms = messages_to_scalars(s, msgs, &api)?;
    let gens = create_generators(s, msgs.len() + 1, &api);
    let bg = blind_generators(s, m + 1);
    let mut b = s.p1();
    for (h, mm) in gens[1..].iter().zip(&ms) {
        b += h * mm;
    }
    b += c;
    if bool::from(b.is_identity()) {
        return Err("B identity");
    }
    // domain over H_1..H_L, Q2, J_1..J_M
    let mut hp = gens[1..].to_vec();
    hp.extend_from_slice(&bg);
    let domain = calculate_domain(s, pk, &gens[0], &hp, header, &api)?;
    b += gens[0] * domain;
    let dst = [&api[..], b"H2S_"].concat();
    let mut inp = scalar_be(sk).to_vec();
    inp.extend_from_slice(&g1_c(&b));
    let e = hash_to_scalar(s, &inp, &dst)?;
    let inv = Option::<Scalar>::from((sk + e).invert()).ok_or("sk+e=0")?;
    Ok(sig_bytes(&(b * inv), &e))
}

fn blind_vector(
    s: SuiteId,
    msgs: &[Vec<u8>],
    committed: &[Vec<u8>],
    blind: Option<&Scalar>,
    l_gens: usize,
    m_gens: usize,
) -> Result<(Vec<Scalar>, Vec<G1Projective>), &'static str> {
    let api = s.blind_api_id();
    let mut v = messages_to_scalars(s, msgs, &api)?;
    if let Some(b) = blind {
        v.push(*b);
    }
    v.extend(messages_to_scalars(s, committed, &api)?);
    let mut g = create_generators(s, l_gens, &api);
    g.extend(blind_generators(s, m_gens));
    Ok((v, g))
}

pub fn verify_blind_sign(
    s: SuiteId,
    pk: &[u8],
    sig: &[u8],
    header: &[u8],
    msgs: &[Vec<u8>],
    committed: &[Vec<u8>],
    blind: &Scalar,
) -> bool {
    let Some(w) = octets_to_pubkey(pk) else { return false };
    let Some((a, e)) = octets_to_signature(sig) else { return false };
    let Ok((v, g)) = blind_vector(s, msgs, committed, Some(blind), msgs.len() + 1, committed.len() + 1)
    else {
        return false;
    };
    core_verify(s, &w, &a, &e, &g, header, &v, &s.blind_api_id())
}

pub fn blind_proof_gen(
    s: SuiteId,
    pk: &G2Projective,
    sig: &[u8],
    header: &[u8],
    ph: &[u8],
    msgs: &[Vec<u8>],
    committed: &[Vec<u8>],
    disclosed_idx: &[usize],
    disclosed_commit_idx: &[usize],
    blind: &Scalar,
    rnd: &[Scalar],
) -> Result<Vec<u8>, &'static str> {
    let (a, e) = octets_to_signature(sig).ok_or("sig")?;
    let l = msgs.len();
    let m = committed.len();
    if disclosed_idx.iter().any(|&i| i >= l) || disclosed_commit_idx.iter().any(|&j| j >= m) {
        return Err("index");
    }
    let (v, g) = blind_vector(s, msgs, committed, Some(blind), l + 1, m + 1)?;
    let idx: Vec<usize> = disclosed_idx
        .iter()
        .copied()
        .chain(disclosed_commit_idx.iter().map(|j| j + l + 1))
        .collect();
    Ok(core_proof_gen(s, pk, &a, &e, &g, header, ph, &v, &idx, &s.blind_api_id(), rnd)?.to_bytes())
}

pub fn blind_proof_verify(
    s: SuiteId,
    pk: &[u8],
    proof: &[u8],
    header: &[u8],
    ph: &[u8],
    l: usize,
    disclosed_msgs: &[Vec<u8>],
    disclosed_committed: &[Vec<u8>],
    disclosed_idx: &[usize],
    disclosed_commit_idx: &[usize],
) -> bool {
    let Some(w) = octets_to_pubkey(pk) else { return false };
    let Some(p) = octets_to_proof(proof) else { return false };
    if disclosed_msgs.len() != disclosed_idx.len()
        || disclosed_committed.len() != disclosed_commit_idx.len()
    {
        return false;
    }
    let n = p.m_cap.len() + disclosed_idx.len() + disclosed_commit_idx.len();
    // n = L + 1 + M  =>  M = n - 1 - L
    let Some(m) = n.checked_sub(1).and_then(|x| x.checked_sub(l)) else { return false };
    if disclosed_idx.iter().any(|&i| i >= l) || disclosed_commit_idx.iter().any(|&j| j >= m) {
        return false;
    }
    let Ok((v, g)) = blind_vector(s, disclosed_msgs, disclosed_committed, None, l + 1, m + 1) else {
        return false;
    };
    let idx: Vec<usize> = disclosed_idx
        .iter()
        .copied()
        .chain(disclosed_commit_idx.iter().map(|j| j + l + 1))
        .collect();
    let disclosed: Vec<(usize, Scalar)> = idx.into_iter().zip(v).collect();
    core_proof_verify(s, &w, &p, &g, header, ph, &disclosed, &s.blind_api_id())
}

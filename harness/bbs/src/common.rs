//! Shared machinery: monitored calls (event log, outcome, work counters), case signatures,
//! violations, samples, deterministic seeded generation, scenario runner.

#![allow(dead_code)]

use rand::{RngCore, SeedableRng};
use rand_chacha::ChaCha20Rng;
use serde_json::{json, Value};
use std::collections::{BTreeMap, HashSet};
use std::hash::{Hash, Hasher};
use std::io::Write;
use std::panic::{catch_unwind, AssertUnwindSafe};
use std::sync::atomic::{AtomicU64, AtomicUsize, Ordering};
use std::sync::Mutex;
use zkryptium::utils::verif_hooks as hooks;

// ---------------------------------------------------------------- counting allocator (per thread)
pub mod alloc_count {
    use std::alloc::{GlobalAlloc, Layout, System};
    use std::cell::Cell;
    thread_local! {
        static CUR: Cell<usize> = const { Cell::new(0) };
        static PEAK: Cell<usize> = const { Cell::new(0) };
        static BIGGEST: Cell<usize> = const { Cell::new(0) };
    }
    pub struct Counting;
    unsafe impl GlobalAlloc for Counting {
        unsafe fn alloc(&self, l: Layout) -> *mut u8 {
            let _ = CUR.try_with(|c| {
                let v = c.get().saturating_add(l.size());
                c.set(v);
                let _ = PEAK.try_with(|p| if v > p.get() { p.set(v) });
                let _ = BIGGEST.try_with(|b| if l.size() > b.get() { b.set(l.size()) });
            });
            System.alloc(l)
        }
        unsafe fn dealloc(&self, p: *mut u8, l: Layout) {
            let _ = CUR.try_with(|c| c.set(c.get().saturating_sub(l.size())));
            System.dealloc(p, l)
        }
        unsafe fn realloc(&self, p: *mut u8, l: Layout, new: usize) -> *mut u8 {
            let _ = CUR.try_with(|c| {
                let v = c.get().saturating_sub(l.size()).saturating_add(new);
                c.set(v);
                let _ = PEAK.try_with(|p| if v > p.get() { p.set(v) });
                let _ = BIGGEST.try_with(|b| if new > b.get() { b.set(new) });
            });
            System.realloc(p, l, new)
        }
    }
    /// start a measurement window on this thread
    pub fn reset() {
        CUR.with(|c| c.set(0));
        PEAK.with(|c| c.set(0));
        BIGGEST.with(|c| c.set(0));
    }
    /// (peak live bytes allocated since reset, biggest single request)
    pub fn peak() -> (usize, usize) {
        (PEAK.with(|c| c.get()), BIGGEST.with(|c| c.get()))
    }
}

#[derive(Clone, Copy, Debug, PartialEq, Eq)]
pub enum Tier {
    Quick,
    Thorough,
}

#[derive(Clone, Debug, PartialEq, Eq)]
pub enum Outcome {
    Ok,
    Err(String),
    Panic(String),
}

impl Outcome {
    pub fn is_ok(&self) -> bool {
        matches!(self, Outcome::Ok)
    }
    pub fn is_err(&self) -> bool {
        matches!(self, Outcome::Err(_))
    }
    pub fn is_panic(&self) -> bool {
        matches!(self, Outcome::Panic(_))
    }
    pub fn short(&self) -> String {
        match self {
            Outcome::Ok => "Ok".into(),
            Outcome::Err(e) => format!("Err({})", e.chars().take(60).collect::<String>()),
            Outcome::Panic(e) => format!("Panic({})", e.chars().take(90).collect::<String>()),
        }
    }
    pub fn class(&self) -> &'static str {
        match self {
            Outcome::Ok => "Ok",
            Outcome::Err(_) => "Err",
            Outcome::Panic(_) => "Panic",
        }
    }
}

pub struct Monitored<T> {
    pub outcome: Outcome,
    pub value: Option<T>,
    pub work: hooks::WorkCounts,
    pub draws: Vec<hooks::Draw>,
    /// (peak live bytes, biggest single request) allocated by the call on this thread
    pub alloc: (usize, usize),
}

pub struct Ctx {
    pub prop: String,
    pub tier: Tier,
    pub seed: u64,
    pub only_scenario: Option<usize>,
    /// flush the event log after every `call` line (C08: a dying worker must leave its last call behind)
    pub flush_calls: bool,
    pub events: AtomicU64,
    distinct: Mutex<HashSet<u64>>,
    ops: Mutex<BTreeMap<String, u64>>,
    outcomes: Mutex<BTreeMap<String, u64>>,
    violations: Mutex<Vec<Value>>,
    samples: Mutex<Vec<Value>>,
    extra: Mutex<BTreeMap<String, Value>>,
    counters: Mutex<BTreeMap<String, u64>>,
    inconclusive: Mutex<Vec<String>>,
    log: Option<Mutex<std::io::BufWriter<std::fs::File>>>,
    log_budget: AtomicU64,
    pub rng_draws: AtomicU64,
}

thread_local! {
    static SCENARIO: std::cell::Cell<usize> = std::cell::Cell::new(usize::MAX);
    static SCEN_NAME: std::cell::RefCell<String> = std::cell::RefCell::new(String::new());
}

/// (index, name) of the scenario the current thread works for; child threads inherit it explicitly.
pub fn current_scenario() -> (usize, String) {
    (SCENARIO.with(|s| s.get()), SCEN_NAME.with(|s| s.borrow().clone()))
}
pub fn set_scenario(s: &(usize, String)) {
    SCENARIO.with(|c| c.set(s.0));
    SCEN_NAME.with(|c| *c.borrow_mut() = s.1.clone());
}

fn h64(s: &str) -> u64 {
    let mut h = std::collections::hash_map::DefaultHasher::new();
    s.hash(&mut h);
    h.finish()
}

pub fn panic_msg(e: Box<dyn std::any::Any + Send>) -> String {
    if let Some(s) = e.downcast_ref::<&str>() {
        s.to_string()
    } else if let Some(s) = e.downcast_ref::<String>() {
        s.clone()
    } else {
        "<non-string panic>".into()
    }
}

impl Ctx {
    pub fn new(prop: &str, tier: Tier, seed: u64, log_path: Option<&str>) -> Self {
        let log = log_path.map(|p| {
            Mutex::new(std::io::BufWriter::new(
                std::fs::File::create(p).expect("cannot create event log"),
            ))
        });
        Ctx {
            prop: prop.into(),
            tier,
            seed,
            only_scenario: None,
            flush_calls: false,
            events: AtomicU64::new(0),
            distinct: Mutex::new(HashSet::new()),
            ops: Mutex::new(BTreeMap::new()),
            outcomes: Mutex::new(BTreeMap::new()),
            violations: Mutex::new(Vec::new()),
            samples: Mutex::new(Vec::new()),
            extra: Mutex::new(BTreeMap::new()),
            counters: Mutex::new(BTreeMap::new()),
            inconclusive: Mutex::new(Vec::new()),
            log,
            log_budget: AtomicU64::new(400_000),
            rng_draws: AtomicU64::new(0),
        }
    }

    pub fn quick(&self) -> bool {
        self.tier == Tier::Quick
    }

    /// pick by tier
    pub fn t<T>(&self, quick: T, thorough: T) -> T {
        if self.quick() {
            quick
        } else {
            thorough
        }
    }

    pub fn rng(&self, label: &str, idx: u64) -> ChaCha20Rng {
        let mut seed = [0u8; 32];
        seed[..8].copy_from_slice(&self.seed.to_le_bytes());
        seed[8..16].copy_from_slice(&h64(&format!("{}/{}", self.prop, label)).to_le_bytes());
        seed[16..24].copy_from_slice(&idx.to_le_bytes());
        ChaCha20Rng::from_seed(seed)
    }

    fn log_line(&self, v: &Value) {
        if let Some(l) = &self.log {
            // violations are always written and flushed at once: the driver salvages them from the log when the
            // worker does not finish
            let is_violation = v["ev"] == "violation";
            let within_budget = self.log_budget.fetch_update(Ordering::Relaxed, Ordering::Relaxed, |b| b.checked_sub(1)).is_ok();
            if within_budget || is_violation {
                let mut w = l.lock().unwrap();
                let _ = writeln!(w, "{}", v);
                if (self.flush_calls && v["ev"] == "call") || is_violation {
                    let _ = w.flush();
                }
            }
        }
    }

    /// Run one monitored API call: event "call" before, "ret" after, under catch_unwind, with
    /// work counters reset and randomness draws recorded. `sig` is the case signature (discrete
    /// dimensions of the case) used for distinct counting.
    pub fn call<T, E: std::fmt::Debug>(
        &self,
        op: &str,
        sig: &str,
        fuel: Option<u64>,
        f: impl FnOnce() -> Result<T, E>,
    ) -> Monitored<T> {
        let n = self.events.fetch_add(1, Ordering::Relaxed);
        *self.ops.lock().unwrap().entry(op.to_string()).or_insert(0) += 1;
        self.log_line(&json!({"ev":"call","n":n,"op":op,"case":sig,"scn":SCENARIO.with(|s| s.get())}));
        hooks::reset_work(fuel);
        hooks::record_draws(true);
        alloc_count::reset();
        let r = catch_unwind(AssertUnwindSafe(f));
        let alloc = alloc_count::peak();
        hooks::record_draws(false);
        let work = hooks::work_counts();
        hooks::reset_work(None);
        let draws = hooks::take_draws();
        self.rng_draws.fetch_add(draws.len() as u64, Ordering::Relaxed);
        let (outcome, value) = match r {
            Ok(Ok(v)) => (Outcome::Ok, Some(v)),
            Ok(Err(e)) => (Outcome::Err(format!("{:?}", e)), None),
            Err(p) => (Outcome::Panic(panic_msg(p)), None),
        };
        *self
            .outcomes
            .lock()
            .unwrap()
            .entry(format!("{}:{}", op, outcome.class()))
            .or_insert(0) += 1;
        self.log_line(&json!({"ev":"ret","n":n,"outcome":outcome.short(),"gen":work.generators,"h2s":work.h2s_calls,"draws":draws.len()}));
        Monitored {
            outcome,
            value,
            work,
            draws,
            alloc,
        }
    }

    /// A call that returns a plain value (not a Result) — e.g. to_bytes.
    pub fn call_plain<T>(&self, op: &str, sig: &str, f: impl FnOnce() -> T) -> Monitored<T> {
        self.call::<T, ()>(op, sig, None, || Ok(f()))
    }

    /// Count a distinct non-trivial case signature.
    pub fn distinct(&self, sig: &str) {
        self.distinct.lock().unwrap().insert(h64(sig));
    }

    pub fn count(&self, key: &str, n: u64) {
        *self.counters.lock().unwrap().entry(key.to_string()).or_insert(0) += n;
    }

    pub fn set_extra(&self, key: &str, v: Value) {
        self.extra.lock().unwrap().insert(key.to_string(), v);
    }

    pub fn sample(&self, v: Value) {
        let mut s = self.samples.lock().unwrap();
        if s.len() < 12 {
            s.push(v);
        }
    }

    pub fn inconclusive(&self, why: &str) {
        self.inconclusive.lock().unwrap().push(why.to_string());
    }

    /// Report a violation. `signature` identifies the failing call site / input class (used for
    /// known-finding matching); `detail` carries the inputs needed to look at the case.
    pub fn violation(&self, signature: &str, detail: Value) {
        let scn = SCENARIO.with(|s| s.get());
        let name = SCEN_NAME.with(|s| s.borrow().clone());
        self.log_line(&json!({"ev":"violation","signature":signature,"scn":scn}));
        let mut v = self.violations.lock().unwrap();
        // keep every distinct signature, but cap the number of instances kept per signature
        let same = v.iter().filter(|x| x["signature"] == signature).count();
        if same < 5 {
            v.push(json!({"signature":signature,"scenario":scn,"scenario_name":name,"detail":detail}));
        } else {
            drop(v);
            self.count(&format!("violations_dropped:{}", signature), 1);
        }
    }

    pub fn n_violations(&self) -> usize {
        self.violations.lock().unwrap().len()
    }

    pub fn finish(&self, wall_s: f64) -> Value {
        if let Some(l) = &self.log {
            let _ = l.lock().unwrap().flush();
        }
        json!({
            "property": self.prop,
            "tier": if self.quick() {"quick"} else {"thorough"},
            "seed": self.seed,
            "events": self.events.load(Ordering::Relaxed),
            "distinct_nontrivial": self.distinct.lock().unwrap().len(),
            "ops": *self.ops.lock().unwrap(),
            "outcomes": *self.outcomes.lock().unwrap(),
            "counters": *self.counters.lock().unwrap(),
            "rng_draws_observed": self.rng_draws.load(Ordering::Relaxed),
            "violations": *self.violations.lock().unwrap(),
            "samples": *self.samples.lock().unwrap(),
            "extra": *self.extra.lock().unwrap(),
            "inconclusive": *self.inconclusive.lock().unwrap(),
            "wall_s": wall_s,
        })
    }
}

/// A scenario: a named unit of work executed by one thread.
pub struct Scenario {
    pub name: String,
    pub run: Box<dyn FnOnce(&Ctx) + Send>,
}

pub fn scenario(name: impl Into<String>, f: impl FnOnce(&Ctx) + Send + 'static) -> Scenario {
    Scenario {
        name: name.into(),
        run: Box::new(f),
    }
}

/// Run scenarios on `threads` worker threads (work stealing by atomic index). A panic escaping a
/// scenario (i.e. a harness bug or an un-monitored library panic) is recorded as inconclusive.
pub fn run_scenarios(ctx: &Ctx, scenarios: Vec<Scenario>, threads: usize) {
    let n = scenarios.len();
    let slots: Vec<Mutex<Option<Scenario>>> = scenarios.into_iter().map(|s| Mutex::new(Some(s))).collect();
    let next = AtomicUsize::new(0);
    std::thread::scope(|sc| {
        for _ in 0..threads.max(1) {
            sc.spawn(|| loop {
                let i = next.fetch_add(1, Ordering::SeqCst);
                if i >= n {
                    break;
                }
                if let Some(only) = ctx.only_scenario {
                    if only != i {
                        continue;
                    }
                }
                let s = slots[i].lock().unwrap().take().unwrap();
                SCENARIO.with(|c| c.set(i));
                SCEN_NAME.with(|c| *c.borrow_mut() = s.name.clone());
                let name = s.name.clone();
                let r = catch_unwind(AssertUnwindSafe(|| (s.run)(ctx)));
                if let Err(p) = r {
                    ctx.inconclusive(&format!("scenario {} ({}) aborted: {}", i, name, panic_msg(p)));
                }
            });
        }
    });
    ctx.set_extra("scenarios", json!(n));
}

// ---------------------------------------------------------------- generation helpers

pub fn rand_bytes(r: &mut impl RngCore, n: usize) -> Vec<u8> {
    let mut v = vec![0u8; n];
    r.fill_bytes(&mut v);
    v
}

pub fn rand_range(r: &mut impl RngCore, n: usize) -> usize {
    if n == 0 {
        0
    } else {
        (r.next_u64() % n as u64) as usize
    }
}

pub fn pick<'a, T>(r: &mut impl RngCore, xs: &'a [T]) -> &'a T {
    &xs[rand_range(r, xs.len())]
}

pub fn hx(b: &[u8]) -> String {
    if b.len() <= 96 {
        hex::encode(b)
    } else {
        format!("{}..({} bytes)", hex::encode(&b[..32]), b.len())
    }
}

pub fn hx_full(b: &[u8]) -> String {
    hex::encode(b)
}

pub fn msgs_json(m: &[Vec<u8>]) -> Value {
    json!(m.iter().map(|x| hx(x)).collect::<Vec<_>>())
}

/// Header / presentation-header classes.
#[derive(Clone, Debug)]
pub enum Hdr {
    Absent,
    Empty,
    Bytes(Vec<u8>),
}

impl Hdr {
    pub fn as_opt(&self) -> Option<&[u8]> {
        match self {
            Hdr::Absent => None,
            Hdr::Empty => Some(&[]),
            Hdr::Bytes(b) => Some(b),
        }
    }
    pub fn octets(&self) -> &[u8] {
        self.as_opt().unwrap_or(&[])
    }
    pub fn class(&self) -> String {
        match self {
            Hdr::Absent => "absent".into(),
            Hdr::Empty => "empty".into(),
            Hdr::Bytes(b) => format!("{}B", b.len()),
        }
    }
    pub fn gen(r: &mut impl RngCore, sizes: &[usize]) -> Hdr {
        match rand_range(r, sizes.len() + 2) {
            0 => Hdr::Absent,
            1 => Hdr::Empty,
            k => {
                // one in eight: a length at an 8- / 16-bit boundary of any length prefix or counter
                let n = if rand_range(r, 8) == 0 { [255usize, 256, 65535, 65536, 65537][rand_range(r, 5)] } else { sizes[k - 2] };
                Hdr::Bytes(rand_bytes(r, n))
            }
        }
    }
}

/// Message-content classes.
pub fn gen_messages(r: &mut impl RngCore, l: usize, class: usize) -> Vec<Vec<u8>> {
    match class % 6 {
        0 => (0..l).map(|_| rand_bytes(r, 32)).collect(),
        1 => (0..l).map(|_| Vec::new()).collect(), // all empty (hence all equal)
        2 => (0..l).map(|i| vec![i as u8; 1]).collect(), // 1-byte
        3 => (0..l)
            .map(|i| {
                // lengths around the block / rate boundaries of SHA-256 (64) and SHAKE-256 (136) and around 255/256
                const EDGES: [usize; 20] = [55, 56, 57, 63, 64, 65, 111, 112, 119, 120, 127, 128, 129, 135, 136, 137, 254, 255, 256, 257];
                let n = if i % 3 == 0 { EDGES[rand_range(r, EDGES.len())] } else { rand_range(r, 80) };
                rand_bytes(r, n)
            })
            .collect(),
        4 => {
            // duplicates: pairs of equal messages
            let a = rand_bytes(r, 16);
            (0..l).map(|i| if i % 2 == 0 { a.clone() } else { rand_bytes(r, 16) }).collect()
        }
        _ => (0..l).map(|i| if i == 0 { rand_bytes(r, 1024) } else { rand_bytes(r, 7) }).collect(),
    }
}

pub fn all_subsets(l: usize) -> Vec<Vec<usize>> {
    (0..(1usize << l))
        .map(|mask| (0..l).filter(|i| mask >> i & 1 == 1).collect())
        .collect()
}

//! C03 — BBS proof completeness for every disclosure choice.

use crate::api::*;
use crate::common::*;
use serde_json::json;

fn subsets_for(r: &mut impl rand::RngCore, l: usize, exhaustive_upto: usize) -> Vec<Vec<usize>> {
    if l <= exhaustive_upto {
        return all_subsets(l);
    }
    if l >= 512 {
        return vec![vec![], (0..l).collect(), (0..l).step_by(2).collect(), (0..l).filter(|_| r.next_u32() % 3 == 0).collect()];
    }
    let mut v: Vec<Vec<usize>> = vec![
        vec![],
        (0..l).collect(),
        vec![0],
        vec![l - 1],
        (0..l - 1).collect(),
        (1..l).collect(),
        (0..l).step_by(2).collect(),
        (1..l).step_by(2).collect(),
    ];
    for _ in 0..8 {
        let d: Vec<usize> = (0..l).filter(|_| r.next_u32() % 2 == 0).collect();
        v.push(d);
    }
    v
}

fn one<X: Sx>(ctx: &Ctx, idx: u64, l: usize, exhaustive_upto: usize) {
    let mut r = ctx.rng("c03", idx);
    if l <= 300 {
        history_warmup::<X>(ctx, &mut r, l);
    }
    let (sk, pk) = keypair::<X>(&mut r);
    let msgs = gen_messages(&mut r, l, idx as usize);
    let hdr = Hdr::gen(&mut r, &[1, 16, 300]);
    let Some(sig) = ctx.call("sign", "honest", Some(l as u64 + 64), || Sig::<X>::sign(Some(&msgs), &sk, &pk, hdr.as_opt())).value else {
        ctx.inconclusive("C03: honest sign failed (C01's business)");
        return;
    };
    let sigb = sig.to_bytes();
    let subsets = subsets_for(&mut r, l, exhaustive_upto);
    for (k, d) in subsets.iter().enumerate() {
        let ph = match (k + idx as usize) % 4 {
            0 => Hdr::Absent,
            1 => Hdr::Empty,
            2 => Hdr::Bytes(rand_bytes(&mut r, 32)),
            _ => { let n = 1 + rand_range(&mut r, 400); Hdr::Bytes(rand_bytes(&mut r, n)) }
        };
        let u = l - d.len();
        let mask: String = if l <= 16 { (0..l).map(|i| if d.contains(&i) { '1' } else { '0' }).collect() } else { format!("R{}", d.len()) };
        let case = format!("{}/L{}/D={}/hdr={}/ph={}", name::<X>(), l, mask, hdr.class(), ph.class());
        ctx.distinct(&case);
        let d_opt: Option<&[usize]> = if d.is_empty() && k % 2 == 0 { None } else { Some(d) };
        let m_opt: Option<&[Vec<u8>]> = if l == 0 && k % 2 == 0 { None } else { Some(&msgs) };
        let g = ctx.call("proof_gen", &case, Some(l as u64 + 64), || Pok::<X>::proof_gen(&pk, &sigb, hdr.as_opt(), ph.as_opt(), m_opt, d_opt));
        let detail = || json!({"case":case,"sk":hx(&sk.to_bytes()),"header":hx(hdr.octets()),"ph":hx(ph.octets()),"messages":msgs_json(&msgs),"disclosed":d,"sig":hx(&sigb)});
        let Some(proof) = g.value else {
            ctx.violation("C03:proof_gen-failed", json!({"outcome":g.outcome.short(),"d":detail()}));
            continue;
        };
        // the production randomness path must have run: 5 + U draws
        if g.draws.len() != 5 + u {
            ctx.violation("C03:unexpected-rng-draw-count", json!({"draws":g.draws.len(),"expected":5+u,"d":detail()}));
        }
        let pb = proof.to_bytes();
        if pb.len() != 272 + 32 * u {
            ctx.violation("C03:proof-length", json!({"len":pb.len(),"expected":272+32*u,"d":detail()}));
        }
        let dm: Vec<Vec<u8>> = d.iter().map(|&i| msgs[i].clone()).collect();
        let dm_opt: Option<&[Vec<u8>]> = if dm.is_empty() && k % 2 == 0 { None } else { Some(&dm) };
        let v = ctx.call("proof_verify", &case, Some(l as u64 + 64), || proof.proof_verify(&pk, dm_opt, d_opt, hdr.as_opt(), ph.as_opt()));
        if !v.outcome.is_ok() {
            ctx.violation("C03:honest-proof-rejected", json!({"outcome":v.outcome.short(),"proof":hx_full(&pb),"d":detail()}));
        }
        if k % 4 == 1 {
            let vo = on_fresh_thread(|| {
                Pok::<X>::from_bytes(&pb).ok().map(|p2| ctx.call("proof_verify", &case, Some(l as u64 + 64), || p2.proof_verify(&pk, dm_opt, d_opt, hdr.as_opt(), ph.as_opt())).outcome)
            });
            if !matches!(vo, Some(Outcome::Ok)) {
                ctx.violation("C03:proof-rejected-on-fresh-thread", json!({"outcome":vo.map(|o| o.short()),"proof":hx_full(&pb),"d":detail()}));
            }
        }
        let dec = ctx.call("from_bytes", &case, Some(l as u64 + 64), || Pok::<X>::from_bytes(&pb));
        match dec.value {
            Some(p2) => {
                if p2 != proof || p2.to_bytes() != pb {
                    ctx.violation("C03:roundtrip-differs", json!({"proof":hx_full(&pb),"d":detail()}));
                }
                let v = ctx.call("proof_verify", &case, Some(l as u64 + 64), || p2.proof_verify(&pk, dm_opt, d_opt, hdr.as_opt(), ph.as_opt()));
                if !v.outcome.is_ok() {
                    ctx.violation("C03:decoded-proof-rejected", json!({"outcome":v.outcome.short(),"proof":hx_full(&pb),"d":detail()}));
                }
            }
            None => ctx.violation("C03:decode-failed", json!({"outcome":dec.outcome.short(),"proof":hx_full(&pb),"d":detail()})),
        }
        if k % 4 == 2 || u == 0 {
            // the serde codec of the proof must be a faithful transport as well
            let js = serde_json::to_string(&proof).unwrap();
            match ctx.call("json/PoKSignature", &case, Some(l as u64 + 64), || serde_json::from_str::<Pok<X>>(&js)).value {
                Some(p3) => {
                    let v = ctx.call("proof_verify", &case, Some(l as u64 + 64), || p3.proof_verify(&pk, dm_opt, d_opt, hdr.as_opt(), ph.as_opt()));
                    if !v.outcome.is_ok() || p3 != proof {
                        ctx.violation("C03:proof-rejected-after-json-roundtrip", json!({"outcome":v.outcome.short(),"d":detail()}));
                    }
                }
                None => ctx.violation("C03:json-decode-failed", json!({"json":js,"d":detail()})),
            }
        }
        if k == 1 {
            ctx.sample(json!({"case":case,"disclosed":d,"proof_len":pb.len(),"rng_draws":g.draws.len(),"verify":"Ok"}));
        }
    }
    ctx.count("signatures", 1);
}

/// volume: many fresh proofs of one small statement, generated, encoded, decoded and verified. Completeness failures that
/// depend on a value shape of the random part (one proof in a few hundred) show here.
fn volume<X: Sx>(ctx: &Ctx, idx: u64, n: usize) {
    let mut r = ctx.rng("c03v", idx);
    let (sk, pk) = keypair::<X>(&mut r);
    let msgs = gen_messages(&mut r, 3, 0);
    let sig = Sig::<X>::sign(Some(&msgs), &sk, &pk, None).unwrap().to_bytes();
    let case = format!("{}/volume", name::<X>());
    ctx.distinct(&case);
    let d = [1usize];
    let dm = vec![msgs[1].clone()];
    for k in 0..n {
        let ph = (k as u64).to_le_bytes();
        let Some(p) = ctx.call("proof_gen", &case, None, || Pok::<X>::proof_gen(&pk, &sig, None, Some(&ph), Some(&msgs), Some(&d))).value else {
            ctx.violation("C03:proof_gen-failed", json!({"case":case,"k":k}));
            continue;
        };
        let pb = p.to_bytes();
        match ctx.call("from_bytes", &case, None, || Pok::<X>::from_bytes(&pb)).value {
            Some(p2) => {
                let v = ctx.call("proof_verify", &case, None, || p2.proof_verify(&pk, Some(&dm), Some(&d), None, Some(&ph)));
                if !v.outcome.is_ok() || p2 != p {
                    ctx.violation("C03:decoded-proof-rejected", json!({"case":case,"k":k,"proof":hx_full(&pb),"sk":hx(&sk.to_bytes()),"outcome":v.outcome.short()}));
                }
            }
            None => ctx.violation("C03:decode-failed", json!({"case":case,"k":k,"proof":hx_full(&pb)})),
        }
        ctx.count("volume_proofs_verified", 1);
    }
}

pub fn scenarios(ctx: &Ctx) -> Vec<Scenario> {
    let mut v = Vec::new();
    let nvol = ctx.t(300usize, 3000usize);
    for i in 0..4u64 {
        v.push(scenario(format!("sha/volume{i}"), move |c| volume::<Sha>(c, 5000 + i, nvol)));
        v.push(scenario(format!("shake/volume{i}"), move |c| volume::<Shake>(c, 5100 + i, nvol)));
    }
    let mut idx = 0u64;
    let ex = ctx.t(8usize, 11usize);
    let mut ls: Vec<(usize, usize)> = Vec::new(); // (L, repetitions)
    for l in 0..=ex {
        ls.push((l, if l <= 5 { ctx.t(3, 8) } else { 1 }));
    }
    // size ladder: around every power of two up to 512 (bitmaps, fixed buffers), around the one-call expansion limits of the
    // two suites (170 / 1365 scalars of 48 octets), and a few large ones
    for &l in ctx.t(&[16usize, 31, 32, 33, 63, 64, 65, 127, 128, 129, 166, 171, 257][..],
                    &[12usize, 15, 16, 17, 31, 32, 33, 63, 64, 65, 100, 127, 128, 129, 165, 166, 170, 171, 255, 256, 257, 511, 512, 513, 1000, 1361, 1400][..]) {
        ls.push((l, ctx.t(1, 2)));
    }
    if ctx.quick() {
        ls.push((1000, 1));
    }
    ls.reverse();
    for (l, reps) in ls {
        for rep in 0..reps {
            let i = idx;
            idx += 1;
            if l == 1000 && ctx.quick() {
                // one suite each for the largest size in quick
                if rep % 2 == 0 {
                    v.push(scenario(format!("sha/L{l}"), move |c| one::<Sha>(c, i, l, ex)));
                } else {
                    v.push(scenario(format!("shake/L{l}"), move |c| one::<Shake>(c, i, l, ex)));
                }
                continue;
            }
            v.push(scenario(format!("sha/L{l}/r{rep}"), move |c| one::<Sha>(c, i, l, ex)));
            v.push(scenario(format!("shake/L{l}/r{rep}"), move |c| one::<Shake>(c, i, l, ex)));
        }
    }
    v
}

use crate::common::*;
pub fn scenarios(_ctx: &Ctx) -> Vec<Scenario> { vec![] }
pub fn finish(_ctx: &Ctx) {}
pub fn emit_process_values(_ctx: &Ctx) {}

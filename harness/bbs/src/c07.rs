//! C07 — Fresh blinding: proofs and commitments never reuse or expose randomness.
//! History monitor: every randomness-derived value produced anywhere in the run (all threads)
//! goes into one set; the driver merges the sets of several processes.

use crate::api::*;
use crate::common::*;
use crate::refimpl::{self as rf};
use bls12_381_plus::Scalar;
use ff::Field;
use rand::RngCore;
use serde_json::{json, Value};
use std::collections::HashMap;
use std::sync::{Barrier, Mutex, OnceLock};
use zkryptium::utils::verif_hooks::Draw;

static SCALARS: OnceLock<Mutex<HashMap<[u8; 32], String>>> = OnceLock::new();
static POINTS: OnceLock<Mutex<HashMap<[u8; 48], String>>> = OnceLock::new();
static RAW: OnceLock<Mutex<Vec<Vec<u8>>>> = OnceLock::new();

fn scalars() -> &'static Mutex<HashMap<[u8; 32], String>> {
    SCALARS.get_or_init(|| Mutex::new(HashMap::new()))
}
fn points() -> &'static Mutex<HashMap<[u8; 48], String>> {
    POINTS.get_or_init(|| Mutex::new(HashMap::new()))
}
fn raw() -> &'static Mutex<Vec<Vec<u8>>> {
    RAW.get_or_init(|| Mutex::new(Vec::new()))
}

fn note_scalar(ctx: &Ctx, s: &Scalar, origin: &str) {
    if *s == Scalar::ZERO {
        ctx.violation("C07:zero-blinding-scalar", json!({"origin":origin}));
        return;
    }
    let k = s.to_be_bytes();
    let mut m = scalars().lock().unwrap();
    if let Some(prev) = m.get(&k) {
        // the same logical value may be noted twice on purpose (boundary + draw log) under the same origin
        if prev != origin {
            let kind = |o: &str| o.split('#').next().unwrap_or("").to_string();
            ctx.violation(
                &format!("C07:repeated-scalar/{}~{}", kind(prev), kind(origin)),
                json!({"value":hex::encode(k),"first":prev,"again":origin}),
            );
        }
    } else {
        m.insert(k, origin.to_string());
    }
    ctx.count("distinct_scalars_tracked", 1);
}

fn note_point(ctx: &Ctx, p: &[u8], origin: &str) {
    let k: [u8; 48] = p.try_into().unwrap();
    let mut m = points().lock().unwrap();
    if let Some(prev) = m.get(&k) {
        if prev != origin {
            let kind = |o: &str| o.split('#').next().unwrap_or("").to_string();
            ctx.violation(&format!("C07:repeated-point/{}~{}", kind(prev), kind(origin)), json!({"value":hex::encode(k),"first":prev,"again":origin}));
        }
    } else {
        m.insert(k, origin.to_string());
    }
    ctx.count("distinct_points_tracked", 1);
}

struct Replay<'a>(&'a [u8], usize);
impl<'a> RngCore for Replay<'a> {
    fn next_u32(&mut self) -> u32 {
        let mut b = [0u8; 4];
        self.fill_bytes(&mut b);
        u32::from_le_bytes(b)
    }
    fn next_u64(&mut self) -> u64 {
        let mut b = [0u8; 8];
        self.fill_bytes(&mut b);
        u64::from_le_bytes(b)
    }
    fn fill_bytes(&mut self, d: &mut [u8]) {
        d.copy_from_slice(&self.0[self.1..self.1 + d.len()]);
        self.1 += d.len();
    }
    fn try_fill_bytes(&mut self, d: &mut [u8]) -> Result<(), rand::Error> {
        self.fill_bytes(d);
        Ok(())
    }
}

/// Scalars the library derived from the logged draws of one call (replays Scalar::random).
fn draw_scalars(ctx: &Ctx, draws: &[Draw], origin: &str) -> Vec<Scalar> {
    let mut out = vec![];
    for (i, d) in draws.iter().enumerate() {
        if d.bytes.iter().all(|&b| b == 0) {
            ctx.violation("C07:all-zero-draw", json!({"origin":origin,"site":d.site}));
        }
        raw().lock().unwrap().push(d.bytes.clone());
        if d.site == "get_random" && d.bytes.len() == 64 {
            let s = Scalar::random(Replay(&d.bytes, 0));
            note_scalar(ctx, &s, &format!("draw#{}#{}", origin, i));
            out.push(s);
        }
    }
    out
}

fn window_scan(ctx: &Ctx, what: &str, enc: &[u8], secrets32: &[(&str, [u8; 32])], secrets48: &[(&str, [u8; 48])]) {
    for (nm, s) in secrets32 {
        if enc.windows(32).any(|w| w == s) {
            ctx.violation(&format!("C07:secret-in-encoding/{}/{}", what, nm), json!({"encoding":hx_full(enc)}));
        }
    }
    for (nm, s) in secrets48 {
        if enc.windows(48).any(|w| w == s) {
            ctx.violation(&format!("C07:secret-in-encoding/{}/{}", what, nm), json!({"encoding":hx_full(enc)}));
        }
    }
}

struct Transcript {
    c: Scalar,
    e_cap: Scalar,
    m_cap: Vec<Scalar>,
}

/// One proof generation on fixed inputs; returns the transcript. `hidden` = scalars of the hidden
/// positions in order (for blind proofs this includes the blind-factor slot).
fn observe_proof<X: Sx>(
    ctx: &Ctx,
    origin: &str,
    proof: &Pok<X>,
    draws: &[Draw],
    e: &Scalar,
    a48: &[u8; 48],
    hidden: &[Scalar],
    extra_secret: Option<[u8; 32]>,
) -> Option<Transcript> {
    let pb = proof.to_bytes();
    let Some(p) = rf::octets_to_proof(&pb) else {
        ctx.violation("C07:honest-proof-not-decodable-by-reference", json!({"proof":hx_full(&pb)}));
        return None;
    };
    let u = hidden.len();
    if draws.len() != 5 + u {
        ctx.violation("C07:unexpected-rng-draw-count/proof", json!({"draws":draws.len(),"expected":5+u,"origin":origin}));
    }
    let ds = draw_scalars(ctx, draws, origin);
    // witness-side recomputation of the blinding scalars
    // (when the draw log explains them they are already tracked as draws; otherwise track them here)
    let explained = ds.len() == 5 + u;
    let e_t = p.e_cap - e * p.c;
    if !explained {
        note_scalar(ctx, &e_t, &format!("e~#{}", origin));
    }
    let mut tildes = vec![e_t];
    for (j, mj) in hidden.iter().enumerate() {
        let mt = p.m_cap[j] - mj * p.c;
        if !explained {
            note_scalar(ctx, &mt, &format!("m~#{}#{}", origin, j));
        }
        tildes.push(mt);
    }
    // the boundary-recomputed values must be draws of this very call (ties the log to the output)
    if ds.len() == 5 + u {
        if ds[2] != e_t || (0..u).any(|j| ds[5 + j] != tildes[1 + j]) {
            ctx.violation("C07:draw-log-does-not-explain-output", json!({"origin":origin}));
        }
        // r1, r2, r1~, r3~ are only visible in the log: non-zero and distinct is checked by note_scalar
        ctx.count("proofs_with_all_5+U_draws_observed", 1);
    }
    note_point(ctx, &pb[0..48], &format!("Abar#{}", origin));
    note_point(ctx, &pb[48..96], &format!("Bbar#{}", origin));
    note_point(ctx, &pb[96..144], &format!("D#{}", origin));
    // encodings never contain hidden scalars, e or A
    let mut s32: Vec<(&str, [u8; 32])> = vec![("e", e.to_be_bytes())];
    for h in hidden {
        s32.push(("hidden-message-scalar", h.to_be_bytes()));
    }
    if let Some(x) = extra_secret {
        s32.push(("blind-factor", x));
    }
    window_scan(ctx, "proof", &pb, &s32, &[("A", *a48)]);
    let js = serde_json::to_string(proof).unwrap();
    for (nm, s) in &s32 {
        if js.contains(&hex::encode(s)) {
            ctx.violation(&format!("C07:secret-in-encoding/proof-json/{}", nm), json!({"json":js}));
        }
    }
    if js.contains(&hex::encode(a48)) {
        ctx.violation("C07:secret-in-encoding/proof-json/A", json!({"json":js}));
    }
    Some(Transcript { c: p.c, e_cap: p.e_cap, m_cap: p.m_cap })
}

/// The attacker's two-transcript extraction on every pair.
fn extraction(ctx: &Ctx, origin: &str, ts: &[Transcript], e: &Scalar, hidden: &[Scalar]) {
    for a in 0..ts.len() {
        for b in a + 1..ts.len() {
            let dc = ts[a].c - ts[b].c;
            let Some(inv) = Option::<Scalar>::from(dc.invert()) else {
                ctx.violation("C07:repeated-challenge", json!({"origin":origin,"a":a,"b":b}));
                continue;
            };
            if (ts[a].e_cap - ts[b].e_cap) * inv == *e {
                ctx.violation("C07:two-transcript-extraction/e", json!({"origin":origin,"a":a,"b":b}));
            }
            for (j, h) in hidden.iter().enumerate() {
                if (ts[a].m_cap[j] - ts[b].m_cap[j]) * inv == *h {
                    ctx.violation("C07:two-transcript-extraction/hidden-message", json!({"origin":origin,"a":a,"b":b,"j":j}));
                }
            }
            ctx.count("transcript_pairs_attacked", 1);
        }
    }
}

fn repeat_proof<X: Sx>(ctx: &Ctx, idx: u64, l: usize, d: Vec<usize>, n: usize, threads: usize) {
    let mut r = ctx.rng("c07p", idx);
    let (sk, pk) = keypair::<X>(&mut r);
    let msgs = gen_messages(&mut r, l, 0);
    let sig = Sig::<X>::sign(Some(&msgs), &sk, &pk, Some(b"h")).unwrap().to_bytes();
    let (a48, e) = (<[u8; 48]>::try_from(&sig[..48]).unwrap(), rf::octets_to_scalar(&sig[48..]).unwrap());
    let ms = rf::messages_to_scalars(X::ID, &msgs, &X::ID.api_id()).unwrap();
    let hidden: Vec<Scalar> = (0..l).filter(|i| !d.contains(i)).map(|i| ms[i]).collect();
    let origin = format!("proof/{}/L{}/D{:?}/s{}", name::<X>(), l, d, idx);
    ctx.distinct(&origin);
    let all: Mutex<Vec<Transcript>> = Mutex::new(vec![]);
    let barrier = Barrier::new(threads);
    let scn = current_scenario();
    std::thread::scope(|sc| {
        let scn = &scn;
        for t in 0..threads {
            let (all, barrier, origin, pk, msgs, d, hidden, sig) = (&all, &barrier, &origin, &pk, &msgs, &d, &hidden, &sig);
            sc.spawn(move || {
                set_scenario(scn);
                barrier.wait();
                for k in 0..n {
                    let o = format!("{}/t{}/k{}", origin, t, k);
                    ctx.distinct(&o);
                    let g = ctx.call("proof_gen", origin, None, || Pok::<X>::proof_gen(pk, sig, Some(b"h"), Some(b"ph"), Some(msgs), Some(d)));
                    if let Some(p) = g.value {
                        if let Some(tr) = observe_proof::<X>(ctx, &o, &p, &g.draws, &e, &a48, hidden, None) {
                            all.lock().unwrap().push(tr);
                        }
                    } else {
                        ctx.inconclusive("C07: proof_gen failed (C03's business)");
                    }
                }
            });
        }
    });
    let ts = all.into_inner().unwrap();
    extraction(ctx, &origin, &ts, &e, &hidden);
    ctx.sample(json!({"kind":"repeat_proof","suite":name::<X>(),"L":l,"disclosed":d,"threads":threads,"generations":ts.len(),"pairs_attacked":ts.len()*(ts.len().saturating_sub(1))/2}));
}

fn repeat_commit<X: Sx>(ctx: &Ctx, idx: u64, m: usize, n: usize, threads: usize) {
    let mut r = ctx.rng("c07c", idx);
    let cm = gen_messages(&mut r, m, 0);
    let cms = rf::messages_to_scalars(X::ID, &cm, &X::ID.blind_api_id()).unwrap();
    let origin = format!("commit/{}/M{}/s{}", name::<X>(), m, idx);
    ctx.distinct(&origin);
    let all: Mutex<Vec<(Scalar, Scalar, Vec<Scalar>, Scalar)>> = Mutex::new(vec![]);
    let barrier = Barrier::new(threads);
    let scn = current_scenario();
    std::thread::scope(|sc| {
        let scn = &scn;
        for t in 0..threads {
            let (all, barrier, origin, cm, cms) = (&all, &barrier, &origin, &cm, &cms);
            sc.spawn(move || {
                set_scenario(scn);
                barrier.wait();
                for k in 0..n {
                    let o = format!("{}/t{}/k{}", origin, t, k);
                    ctx.distinct(&o);
                    // with no committed messages the argument may be absent or the empty list: both are exercised
                    let arg: Option<&[Vec<u8>]> = if m == 0 && k % 2 == 1 { None } else { Some(cm) };
                    let g = ctx.call("commit", origin, None, || Com::<X>::commit(arg));
                    let Some((com, bf)) = g.value else {
                        ctx.inconclusive("C07: commit failed (C05's business)");
                        continue;
                    };
                    if g.draws.len() != m + 2 {
                        ctx.violation("C07:unexpected-rng-draw-count/commit", json!({"draws":g.draws.len(),"expected":m+2}));
                    }
                    let ds = draw_scalars(ctx, &g.draws, &o);
                    let b = com.to_bytes();
                    let blind = rf::octets_to_scalar(&bf.to_bytes()).unwrap();
                    if blind == Scalar::ZERO || b[..48] == rf::g1_c(&bls12_381_plus::G1Projective::IDENTITY)[..] {
                        ctx.violation("C07:zero-blind-or-identity-commitment", json!({"origin":o,"argument":if arg.is_none() {"None"} else {"Some"}}));
                    }
                    let explained = ds.len() == m + 2;
                    if !explained {
                        note_scalar(ctx, &blind, &format!("blind#{}", o));
                    }
                    note_point(ctx, &b[..48], &format!("C#{}", o));
                    let sc_: Vec<Scalar> = b[48..].chunks(32).map(|c| rf::octets_to_scalar(c).unwrap()).collect();
                    let c = *sc_.last().unwrap();
                    let s_t = sc_[0] - blind * c;
                    if !explained {
                        note_scalar(ctx, &s_t, &format!("s~#{}", o));
                    }
                    let mut mts = vec![];
                    for j in 0..m {
                        let mt = sc_[1 + j] - cms[j] * c;
                        if !explained {
                            note_scalar(ctx, &mt, &format!("cm~#{}#{}", o, j));
                        }
                        mts.push(mt);
                    }
                    if ds.len() == m + 2 && (ds[0] != blind || ds[1] != s_t || (0..m).any(|j| ds[2 + j] != mts[j])) {
                        ctx.violation("C07:draw-log-does-not-explain-output", json!({"origin":o}));
                    }
                    let mut s32: Vec<(&str, [u8; 32])> = vec![("blind-factor", blind.to_be_bytes())];
                    for h in cms {
                        s32.push(("committed-message-scalar", h.to_be_bytes()));
                    }
                    window_scan(ctx, "commitment", &b, &s32, &[]);
                    all.lock().unwrap().push((sc_[0], c, sc_[1..1 + m].to_vec(), blind));
                }
            });
        }
    });
    // two-transcript extraction is only meaningful for equal secrets; blind differs per run, the
    // committed messages are equal in all runs
    let ts = all.into_inner().unwrap();
    for a in 0..ts.len() {
        for b in a + 1..ts.len() {
            let Some(inv) = Option::<Scalar>::from((ts[a].1 - ts[b].1).invert()) else {
                ctx.violation("C07:repeated-challenge", json!({"origin":origin}));
                continue;
            };
            for j in 0..m {
                if (ts[a].2[j] - ts[b].2[j]) * inv == cms[j] {
                    ctx.violation("C07:two-transcript-extraction/committed-message", json!({"origin":origin,"a":a,"b":b,"j":j}));
                }
            }
            ctx.count("transcript_pairs_attacked", 1);
        }
    }
    ctx.sample(json!({"kind":"repeat_commit","suite":name::<X>(),"M":m,"threads":threads,"generations":ts.len()}));
}

fn repeat_blind_proof<X: Sx>(ctx: &Ctx, idx: u64, l: usize, m: usize, n: usize) {
    let mut r = ctx.rng("c07b", idx);
    let (sk, pk) = keypair::<X>(&mut r);
    let msgs = gen_messages(&mut r, l, 0);
    let cm = gen_messages(&mut r, m, 0);
    let (com, bf) = Com::<X>::commit(Some(&cm)).unwrap();
    let sig = BSig::<X>::blind_sign(&sk, &pk, Some(&com.to_bytes()), None, Some(&msgs)).unwrap().to_bytes();
    let (a48, e) = (<[u8; 48]>::try_from(&sig[..48]).unwrap(), rf::octets_to_scalar(&sig[48..]).unwrap());
    let api = X::ID.blind_api_id();
    let blind = rf::octets_to_scalar(&bf.to_bytes()).unwrap();
    let mut hidden = rf::messages_to_scalars(X::ID, &msgs, &api).unwrap();
    hidden.push(blind);
    hidden.extend(rf::messages_to_scalars(X::ID, &cm, &api).unwrap());
    let origin = format!("blind-proof/{}/L{}/M{}/s{}", name::<X>(), l, m, idx);
    ctx.distinct(&origin);
    let mut ts = vec![];
    for k in 0..n {
        let o = format!("{}/k{}", origin, k);
        ctx.distinct(&o);
        let g = ctx.call("blind_proof_gen", &origin, None, || Pok::<X>::blind_proof_gen(&pk, &sig, None, Some(b"ph"), Some(&msgs), Some(&cm), None, None, Some(&bf)));
        if let Some(p) = g.value {
            if let Some(t) = observe_proof::<X>(ctx, &o, &p, &g.draws, &e, &a48, &hidden, Some(blind.to_be_bytes())) {
                ts.push(t);
            }
        } else {
            ctx.inconclusive("C07: blind_proof_gen failed (C05's business)");
        }
    }
    extraction(ctx, &origin, &ts, &e, &hidden);
}

/// random key pairs and blind factors drawn on many threads at the same moment: pooled over all threads nothing repeats
/// (a shared generator that is cloned, refilled or rewound under contention hands the same material out twice)
fn concurrent_material<X: Sx>(ctx: &Ctx, idx: u64, threads: usize, per: usize) {
    let origin = format!("concurrent-random/{}/s{}", name::<X>(), idx);
    ctx.distinct(&origin);
    let barrier = Barrier::new(threads);
    let pool: Mutex<HashMap<Vec<u8>, (usize, &'static str)>> = Mutex::new(HashMap::new());
    let scn = current_scenario();
    std::thread::scope(|sc| {
        for t in 0..threads {
            let (barrier, pool, scn, origin) = (&barrier, &pool, &scn, &origin);
            sc.spawn(move || {
                set_scenario(scn);
                barrier.wait();
                let mut mine: Vec<(Vec<u8>, &'static str)> = Vec::with_capacity(per * 2);
                let m = ctx.call("KeyPair::random x N", origin, None, || {
                    for _ in 0..per {
                        let kp = Kp::<X>::random().map_err(|e| format!("{e:?}"))?;
                        mine.push((kp.private_key().to_bytes().to_vec(), "sk"));
                        mine.push((BlindFactor::random().to_bytes().to_vec(), "blind-factor"));
                    }
                    Ok::<_, String>(())
                });
                if !m.outcome.is_ok() {
                    ctx.violation("C07:KeyPair::random-failed", json!({"outcome":m.outcome.short()}));
                }
                let mut p = pool.lock().unwrap();
                for (v, kind) in mine {
                    if v.iter().all(|b| *b == 0) {
                        ctx.violation("C07:zero-random-material", json!({"kind":kind,"thread":t}));
                    }
                    if let Some((t0, k0)) = p.get(&v) {
                        ctx.violation(&format!("C07:repeated-random-material/{}~{}", k0, kind), json!({"threads":[t0, &t],"value":hx_full(&v)}));
                    } else {
                        p.insert(v, (t, kind));
                    }
                }
            });
        }
    });
    ctx.count("concurrent_random_values_pooled", pool.lock().unwrap().len() as u64);
}

fn random_material<X: Sx>(ctx: &Ctx, idx: u64, n: usize) {
    let origin = format!("random/{}/s{}", name::<X>(), idx);
    ctx.distinct(&origin);
    for k in 0..n {
        let o = format!("{}/k{}", origin, k);
        ctx.distinct(&o);
        let g = ctx.call("KeyPair::random", &origin, None, || Kp::<X>::random());
        if let Some(kp) = g.value {
            if g.draws.len() != 1 || g.draws[0].bytes.len() != 64 {
                ctx.violation("C07:unexpected-rng-draw-count/keypair", json!({"draws":g.draws.len()}));
            }
            draw_scalars(ctx, &g.draws, &o);
            // 64 bytes of key material: both halves must look drawn (catches partially filled buffers)
            if let Some(d) = g.draws.first() {
                for (h, half) in d.bytes.chunks(8).enumerate() {
                    if half.iter().all(|&b| b == 0) {
                        ctx.violation("C07:key-material-partially-zero", json!({"chunk":h,"ikm":hx_full(&d.bytes)}));
                    }
                }
                let mut k32 = [0u8; 32];
                k32.copy_from_slice(&d.bytes[..32]);
                note_scalar(ctx, &rf::os2ip_mod_r(&d.bytes[..32]), &format!("ikm-lo#{}", o));
                note_scalar(ctx, &rf::os2ip_mod_r(&d.bytes[32..]), &format!("ikm-hi#{}", o));
            }
            let sk = rf::octets_to_scalar(&kp.private_key().to_bytes()).unwrap();
            note_scalar(ctx, &sk, &format!("sk#{}", o));
        } else {
            ctx.violation("C07:KeyPair::random-failed", json!({"outcome":g.outcome.short()}));
        }
        let g = ctx.call("BlindFactor::random", &origin, None, || Ok::<_, ()>(BlindFactor::random()));
        if let Some(bf) = g.value {
            if g.draws.len() != 1 {
                ctx.violation("C07:unexpected-rng-draw-count/blindfactor", json!({"draws":g.draws.len()}));
            }
            let ds = draw_scalars(ctx, &g.draws, &o);
            let b = rf::octets_to_scalar(&bf.to_bytes()).unwrap();
            if ds.len() != 1 {
                note_scalar(ctx, &b, &format!("blindfactor#{}", o));
            }
            if ds.len() == 1 && ds[0] != b {
                ctx.violation("C07:draw-log-does-not-explain-output", json!({"origin":o}));
            }
        }
        let g = ctx.call("generate_random_secret", &origin, None, || Ok::<_, ()>(zkryptium::utils::util::bbsplus_utils::generate_random_secret(32)));
        if let Some(s) = g.value {
            note_scalar(ctx, &rf::os2ip_mod_r(&s), &format!("secret#{}", o));
            draw_scalars(ctx, &g.draws, &o);
        }
    }
    // volume: events of probability ~1e-4 per draw (bounded retry loops that fall back to a default, short outputs)
    {
        let total = ctx.t(25_000usize, 250_000usize);
        let mut seen: std::collections::HashSet<[u8; 32]> = std::collections::HashSet::with_capacity(total);
        let (mut zeros, mut repeats) = (0u64, 0u64);
        let m = ctx.call("BlindFactor::random x N", &origin, None, || {
            for _ in 0..total {
                let b = BlindFactor::random().to_bytes();
                if b == [0u8; 32] {
                    zeros += 1;
                }
                if !seen.insert(b) {
                    repeats += 1;
                }
            }
            Ok::<_, ()>(())
        });
        if !m.outcome.is_ok() {
            ctx.violation("C07:BlindFactor::random-failed", json!({"outcome":m.outcome.short()}));
        }
        if zeros > 0 || repeats > 0 {
            ctx.violation("C07:blind-factor-zero-or-repeated-in-volume", json!({"draws":total,"zeros":zeros,"repeats":repeats}));
        }
        ctx.count("blind_factors_in_volume", total as u64);
    }
}

pub fn scenarios(ctx: &Ctx) -> Vec<Scenario> {
    let mut v = Vec::new();
    let n = ctx.t(96usize, 400usize);
    let mut idx = 0u64;
    macro_rules! both {
        ($name:expr, |$c:ident, $i:ident| $sha:expr, $shake:expr) => {{
            let $i = idx;
            idx += 1;
            v.push(scenario(format!("sha/{}", $name), move |$c| $sha));
            v.push(scenario(format!("shake/{}", $name), move |$c| $shake));
        }};
    }
    // (a) same inputs, one thread
    for (l, d) in [(0usize, vec![]), (1, vec![]), (3, vec![1]), (5, vec![]), (5, vec![0, 1, 2, 3, 4])] {
        let (d1, d2) = (d.clone(), d.clone());
        both!(format!("proof/L{l}/1thread"), |c, i| repeat_proof::<Sha>(c, i, l, d1, n, 1), repeat_proof::<Shake>(c, i, l, d2, n, 1));
    }
    // (b) same inputs on 16 threads released by a barrier
    for (l, d) in [(2usize, vec![0usize]), (4, vec![])] {
        let (d1, d2) = (d.clone(), d.clone());
        let k = ctx.t(6, 24);
        both!(format!("proof/L{l}/16threads"), |c, i| repeat_proof::<Sha>(c, i, l, d1, k, 16), repeat_proof::<Shake>(c, i, l, d2, k, 16));
    }
    for m in [0usize, 1, 3] {
        both!(format!("commit/M{m}"), |c, i| repeat_commit::<Sha>(c, i, m, n, 1), repeat_commit::<Shake>(c, i, m, n, 1));
    }
    {
        let k = ctx.t(6, 24);
        both!("commit/M2/16threads", |c, i| repeat_commit::<Sha>(c, i, 2, k, 16), repeat_commit::<Shake>(c, i, 2, k, 16));
    }
    for (l, m) in [(0usize, 0usize), (2, 2), (1, 3)] {
        both!(format!("blind-proof/L{l}/M{m}"), |c, i| repeat_blind_proof::<Sha>(c, i, l, m, n), repeat_blind_proof::<Shake>(c, i, l, m, n));
    }
    // (c2) many hidden values: buffers, batches and fixed-size tables in the blinding path have their boundaries here
    for (l, d) in [(33usize, vec![]), (40, vec![0usize, 39]), (70, vec![5]), (130, vec![])] {
        let (d1, d2) = (d.clone(), d.clone());
        let k = ctx.t(3, 12);
        both!(format!("proof/L{l}/many-hidden"), |c, i| repeat_proof::<Sha>(c, i, l, d1, k, 1), repeat_proof::<Shake>(c, i, l, d2, k, 1));
    }
    for m in [33usize, 70] {
        let k = ctx.t(3, 12);
        both!(format!("commit/M{m}/many-hidden"), |c, i| repeat_commit::<Sha>(c, i, m, k, 1), repeat_commit::<Shake>(c, i, m, k, 1));
    }
    for (l, m) in [(20usize, 20usize), (1, 66)] {
        let k = ctx.t(3, 12);
        both!(format!("blind-proof/L{l}/M{m}/many-hidden"), |c, i| repeat_blind_proof::<Sha>(c, i, l, m, k), repeat_blind_proof::<Shake>(c, i, l, m, k));
    }
    // (d) mixed inputs
    for rep in 0..ctx.t(4u64, 16u64) {
        let l = (rep % 5) as usize;
        let d: Vec<usize> = (0..l).filter(|i| (rep >> i) & 1 == 1).collect();
        let (d1, d2) = (d.clone(), d);
        both!(format!("mixed/{rep}"), |c, i| repeat_proof::<Sha>(c, i + 1000, l, d1, 4, 1), repeat_proof::<Shake>(c, i + 1000, l, d2, 4, 1));
    }
    {
        let per = ctx.t(1200usize, 8000usize);
        both!("concurrent-random/16threads", |c, i| concurrent_material::<Sha>(c, i, 16, per), concurrent_material::<Shake>(c, i, 16, per));
    }
    for rep in 0..ctx.t(2, 8) {
        both!(format!("random/{rep}"), |c, i| random_material::<Sha>(c, i, 64), random_material::<Shake>(c, i, 64));
    }
    v
}

/// End-of-history checks: coarse bias screen over the raw draws.
pub fn finish(ctx: &Ctx) {
    let raws = raw().lock().unwrap();
    let n = raws.len();
    ctx.set_extra("raw_draws_in_history", json!(n));
    ctx.set_extra("distinct_scalars_in_history", json!(scalars().lock().unwrap().len()));
    ctx.set_extra("distinct_points_in_history", json!(points().lock().unwrap().len()));
    let d64: Vec<&Vec<u8>> = raws.iter().filter(|d| d.len() == 64).collect();
    if d64.len() >= 4096 {
        // per-bit frequency within 7 sigma (false alarm < 512 * 2.6e-12)
        let nn = d64.len() as f64;
        let sigma = (nn * 0.25).sqrt();
        let mut worst = 0.0f64;
        for bit in 0..512 {
            let ones = d64.iter().filter(|d| d[bit / 8] >> (bit % 8) & 1 == 1).count() as f64;
            let dev = (ones - nn / 2.0).abs() / sigma;
            worst = worst.max(dev);
            if dev > 7.0 {
                ctx.violation("C07:biased-randomness-bit", json!({"bit":bit,"ones":ones,"n":nn,"sigmas":dev}));
            }
        }
        ctx.set_extra("bias_screen", json!({"draws":d64.len(),"bits":512,"worst_deviation_sigmas":worst,"threshold_sigmas":7.0}));
    } else {
        ctx.set_extra("bias_screen", json!({"skipped":"fewer than 4096 64-byte draws","draws":d64.len()}));
    }
    // high 64 bits of the draws must not be constant / tiny (counter-like generators)
    if !d64.is_empty() {
        let small = d64.iter().filter(|d| d[8..].iter().all(|&b| b == 0)).count();
        if small > 0 {
            ctx.violation("C07:counter-like-draws", json!({"draws_with_only_low_8_bytes_set":small}));
        }
    }
}

/// Sub-process mode (`C07 --emit`): a fixed small workload; prints every randomness-derived value.
pub fn emit_process_values(_ctx: &Ctx) {
    use zkryptium::utils::verif_hooks as hooks;
    let mut out: Vec<Value> = vec![];
    hooks::record_draws(true);
    let (sk, pk) = key_from_scalar(Scalar::from(424242u64));
    let msgs = vec![b"m0".to_vec(), b"m1".to_vec()];
    let sig = Sig::<Sha>::sign(Some(&msgs), &sk, &pk, None).unwrap().to_bytes();
    for k in 0..4 {
        let p = Pok::<Sha>::proof_gen(&pk, &sig, None, None, Some(&msgs), Some(&[0])).unwrap().to_bytes();
        out.push(json!({"kind":format!("proof{k}.Abar"),"v":hex::encode(&p[..48])}));
        out.push(json!({"kind":format!("proof{k}.Bbar"),"v":hex::encode(&p[48..96])}));
        out.push(json!({"kind":format!("proof{k}.D"),"v":hex::encode(&p[96..144])}));
        let (c, bf) = Com::<Shake>::commit(Some(&msgs)).unwrap();
        out.push(json!({"kind":format!("commit{k}.C"),"v":hex::encode(&c.to_bytes()[..48])}));
        out.push(json!({"kind":format!("commit{k}.blind"),"v":hex::encode(bf.to_bytes())}));
        let kp = Kp::<Sha>::random().unwrap();
        out.push(json!({"kind":format!("random{k}.sk"),"v":hex::encode(kp.private_key().to_bytes())}));
        out.push(json!({"kind":format!("blindfactor{k}"),"v":hex::encode(BlindFactor::random().to_bytes())}));
    }
    hooks::record_draws(false);
    for (i, d) in hooks::take_draws().iter().enumerate() {
        out.push(json!({"kind":format!("draw{}@{}", i, d.site),"v":hex::encode(&d.bytes)}));
    }
    println!("{}", serde_json::to_string(&out).unwrap());
}

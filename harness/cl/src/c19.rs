//! C19 — CL03 proof responses statistically mask the secrets they answer for.
//! Attacker-side recomputation monitor: divide every response by every recomputable challenge and
//! by every other response and look for the prover's secrets.

use crate::bundles::*;
use crate::clutil::*;
use crate::common::*;
use rug::{integer::Order, Integer};
use serde_json::{json, Value};
use sha2::{Digest, Sha256};

fn hash_dec(parts: &[&Integer]) -> Integer {
    let s: String = parts.iter().map(|p| p.to_string()).collect();
    Integer::from_digits(Sha256::digest(s.as_bytes()).as_slice(), Order::MsfBe)
}

/// Fiat-Shamir challenges the recipient can recompute from public data
fn challenges(b: &Bundle) -> Vec<(String, Integer)> {
    challenges_scoped(b).into_iter().map(|(a, c, _)| (a, c)).collect()
}

/// (label, challenge, JSON path of the object whose responses it multiplies)
fn challenges_scoped(b: &Bundle) -> Vec<(String, Integer, String)> {
    let mut out: Vec<(String, Integer, String)> = vec![];
    let ls = leaves(&b.json);
    for (p, v) in &ls {
        let last = p.rsplit('/').next().unwrap();
        let parent = p.rsplit_once('/').map(|x| x.0.to_string()).unwrap_or_default();
        if last == "challenge" {
            out.push((format!("explicit:{}", path_class(p)), v.clone(), parent.clone()));
        }
        if last == "C" {
            out.push((format!("explicit:{}", path_class(p)), v.clone(), parent.clone()));
            out.push((format!("explicit-mod-2^t:{}", path_class(p)), Integer::from(v.keep_bits_ref(128)), parent));
        }
    }
    // nisp2sec objects {t, s1, s2} next to a commitment {value, ..}: c = H(g || h || commitment.value || t)
    fn walk(v: &Value, path: String, b: &Bundle, out: &mut Vec<(String, Integer, String)>) {
        if let Value::Object(o) = v {
            if let (Some(val), Some(com)) = (o.get("value"), o.get("commitment")) {
                // the commitment is either a bare value or a {value, randomness} object
                let cvv = if is_int_leaf(com) { Some(com) } else { com.get("value") };
                if let (Some(t), Some(cv)) = (val.get("t"), cvv) {
                    let (t, cv) = (leaf_to_int(t), leaf_to_int(cv));
                    for (bl, g, h) in &b.base_pairs {
                        out.push((format!("nispTwoSecrets{}:{}", bl, path_class(&path)), hash_dec(&[g, h, &cv, &t]), path.clone()));
                    }
                }
            }
            if let (Some(t), Some(Value::Array(_)), Some(_)) = (o.get("t"), o.get("s1"), o.get("s2")) {
                // nispMultiSecrets: c = H(a_i for i in U || h || C || t)
                let t = leaf_to_int(t);
                let hid: Vec<&Integer> = b.hidden.iter().map(|(i, _)| &b.base_pairs[*i].1).collect();
                for (_, c) in &b.public_values {
                    let mut parts: Vec<&Integer> = hid.clone();
                    parts.push(&b.base_pairs[0].2);
                    parts.push(c);
                    parts.push(&t);
                    out.push((format!("nispMultiSecrets:{}", path_class(&path)), hash_dec(&parts), path.clone()));
                }
            }
            for (k, x) in o {
                walk(x, format!("{}/{}", path, k), b, out);
            }
        } else if let Value::Array(a) = v {
            for (i, x) in a.iter().enumerate() {
                walk(x, format!("{}/{}", path, i), b, out);
            }
        }
    }
    walk(&b.json, String::new(), b, &mut out);
    out
}

fn attack(ctx: &Ctx, b: &Bundle) {
    ctx.distinct(&b.label);
    let ls = leaves(&b.json);
    let cs = challenges(b);
    let bound = Integer::from(1) << 64;
    let mut secrets: Vec<(String, Integer)> = b.secrets.iter().filter(|(k, _)| k != "signature-v").cloned().collect();
    for (k, v) in &b.derived {
        secrets.push((format!("derived-witness/{}", k.split(':').nth(1).unwrap_or(k)), v.clone()));
    }
    ctx.count("responses_examined", ls.len() as u64);
    ctx.count("challenges_recomputed", cs.len() as u64);
    let mut found: Vec<(String, String, String)> = vec![];
    let near = |q: &Integer, x: &Integer| Integer::from(q - x).abs() < bound;
    // secrets of at least 64 bits, indexed by value (binary search instead of a scan per quotient)
    let big_index = SecretIndex::new(secrets.iter().enumerate().filter(|(_, (_, x))| x.significant_bits() >= 64).map(|(i, (_, x))| (i, x)));
    // distinct challenge values (the per-base-pair candidates repeat across objects)
    let mut cs_distinct: Vec<&(String, Integer)> = vec![];
    {
        let mut seen = std::collections::HashSet::new();
        for e in &cs {
            if e.1 != 0 && seen.insert(e.1.clone()) {
                cs_distinct.push(e);
            }
        }
    }
    // s / c
    for (p, s) in &ls {
        if s.significant_bits() < 64 {
            continue;
        }
        for (cn, c) in cs_distinct.iter().map(|e| (&e.0, &e.1)) {
            let q = Integer::from(s / c);
            for i in big_index.near(&q, &bound) {
                // base index stripped: nisp2sec(a_2,b) -> nisp2sec(a_i,b)
                let cl: String = cn.split(':').next().unwrap().chars().map(|ch| if ch.is_ascii_digit() { 'i' } else { ch }).collect();
                found.push((path_class(p), format!("challenge[{}]", cl), secrets[i].0.clone()));
            }
        }
        ctx.count("divisions", cs_distinct.len() as u64);
    }
    // small secrets (a hidden attribute may be 0, 1, ..): the response divided by the challenge of its OWN
    // sub-proof must still be at least 2^64 away, i.e. the blinding term alone exceeds c * 2^64
    let small: Vec<&(String, Integer)> = secrets.iter().filter(|(k, x)| x.significant_bits() < 64 && !k.starts_with("derived")).collect();
    if !small.is_empty() {
        ctx.count("small_secrets_examined", small.len() as u64);
        for (cn, c, scope) in challenges_scoped(b) {
            if c == 0 {
                continue;
            }
            for (p, s) in &ls {
                let last = p.rsplit('/').next().unwrap();
                if !p.starts_with(scope.as_str()) || last == "challenge" || last == "C" || last == "t" {
                    continue;
                }
                let q = Integer::from(s / &c);
                for (kind, x) in &small {
                    if near(&q, x) {
                        let cl: String = cn.split(':').next().unwrap().chars().map(|ch| if ch.is_ascii_digit() { 'i' } else { ch }).collect();
                        found.push((path_class(p), format!("own-challenge[{}]", cl), format!("small-{}", kind)));
                    }
                }
                ctx.count("divisions", 1);
            }
        }
    }
    // s / s'
    for (p, s) in &ls {
        if s.significant_bits() < 64 {
            continue;
        }
        for (p2, s2) in &ls {
            if p == p2 || s2.significant_bits() < 64 || s2 > s {
                continue;
            }
            let q = Integer::from(s / s2);
            if q.significant_bits() < 64 {
                continue;
            }
            for i in big_index.near(&q, &bound) {
                found.push((path_class(p), format!("response[{}]", path_class(p2)), secrets[i].0.clone()));
            }
        }
        ctx.count("divisions", ls.len() as u64);
    }
    // inversion of Boudot's square decomposition: x' = (floor(d/c)^2 + aa) / 2^T  (side a),
    // x' = (bb - floor(d/c)^2) / 2^T (side b), from the same-secret sub-proof of each proof of square
    for (prefix, a, bb_, kind, x) in &b.ranges {
        let (t, aa, bb) = boudot_public(a, bb_);
        for side in ["a", "b"] {
            let get = |f: &str| ls.iter().find(|(p, _)| p == &format!("{}/proof_of_tolerance/proof_of_square_{}/proof_ss/{}", prefix, side, f)).map(|x| x.1.clone());
            let (Some(d), Some(c)) = (get("d"), get("challenge")) else {
                ctx.count("range_proofs_without_expected_fields", 1);
                continue;
            };
            if c == 0 {
                continue;
            }
            let q = Integer::from(&d / &c);
            let q2 = Integer::from(&q * &q);
            let xr = if side == "a" { Integer::from(&q2 + &aa) >> t } else { Integer::from(&bb - &q2) >> t };
            ctx.count("boudot_inversions_run", 1);
            if near(&xr, x) {
                found.push((format!("{}/proof_of_tolerance/proof_of_square_{}/proof_ss/d", path_class(prefix), side), "challenge[explicit]+square-inversion".into(), kind.clone()));
            }
        }
    }
    for (field, div, what) in sibling_difference_attack(b, &cs) {
        found.push((field, div, what));
    }
    // one blinding answered under two challenges inside one proof: (s - s') / (c - c') for two DIFFERENT fields and two
    // different recomputable challenges must not be a secret (exact division). Bounded to proofs of moderate size.
    {
        let big: Vec<&(String, Integer)> = ls.iter().filter(|(p, v)| v.significant_bits() >= 128 && !p.ends_with("/challenge") && !p.ends_with("/C")).collect();
        let mut chv: Vec<&(String, Integer)> = cs_distinct.clone();
        chv.truncate(40);
        if big.len() <= 260 && chv.len() >= 2 {
            let exact: std::collections::HashMap<&Integer, &String> = secrets.iter().filter(|(_, x)| x.significant_bits() >= 16).map(|(k, x)| (x, k)).collect();
            let mut dcs: Vec<(Integer, String)> = vec![];
            for a in 0..chv.len() {
                for b2 in a + 1..chv.len() {
                    let d = Integer::from(&chv[a].1 - &chv[b2].1);
                    if d != 0 {
                        let la: String = chv[a].0.split(':').next().unwrap().chars().map(|ch| if ch.is_ascii_digit() { 'i' } else { ch }).collect();
                        let lb: String = chv[b2].0.split(':').next().unwrap().chars().map(|ch| if ch.is_ascii_digit() { 'i' } else { ch }).collect();
                        dcs.push((d, format!("{la}-{lb}")));
                    }
                }
            }
            let mut tests = 0u64;
            for i in 0..big.len() {
                for k in i + 1..big.len() {
                    let ds = Integer::from(&big[i].1 - &big[k].1);
                    if ds == 0 {
                        continue;
                    }
                    for (dc, lbl) in &dcs {
                        tests += 1;
                        if ds.is_divisible(dc) {
                            let q = Integer::from(&ds / dc).abs();
                            if let Some(kind) = exact.get(&q) {
                                found.push((format!("{}-{}", path_class(&big[i].0), path_class(&big[k].0)), format!("two-challenges[{}]", lbl), (*kind).clone()));
                            }
                        }
                    }
                }
            }
            ctx.count("two_challenge_extraction_tests", tests);
        } else {
            ctx.count("two_challenge_extraction_skipped(proof too large)", 1);
        }
    }
    found.sort();
    found.dedup();
    for (resp, div, kind) in &found {
        ctx.violation(
            &format!("C19:{}:{}/{}~{}", b.kind, resp, div, kind),
            json!({"proof":b.label,"response":resp,"divisor":div,"recovers":kind}),
        );
    }
    ctx.sample(json!({"proof":b.label,"responses":ls.len(),"challenges":cs.len(),"secrets":secrets.iter().map(|s| s.0.clone()).collect::<Vec<_>>(),"recoveries":found.len()}));
}

fn run<C: Cs>(ctx: &Ctx, idx: u64, nmax: usize) {
    let mut r = ctx.rng("c19", idx);
    let Some(st) = Setup::<C>::new(ctx, nmax) else {
        ctx.inconclusive("C19: key generation panicked (C18's business)");
        return;
    };
    let mut bundles = all_bundles::<C>(ctx, &st, &mut r, nmax);
    let special = special_bundles::<C>(ctx, &st, &mut r, nmax);
    ctx.count("trusted_or_equal_attribute_proofs", special.len() as u64);
    bundles.extend(special);
    let hostile = hostile_key_bundles::<C>(ctx, &st, &mut r, nmax.min(3));
    ctx.count("proofs_under_hostile_commitment_keys", hostile.len() as u64);
    bundles.extend(hostile);
    ctx.count("proofs_attacked", bundles.len() as u64);
    par_for_each(&bundles, 12, |b| attack(ctx, b));
}

pub fn scenarios(ctx: &Ctx) -> Vec<Scenario> {
    use zkryptium::cl03::ciphersuites::{CL1024Sha256, CL2048Sha256};
    let mut v = Vec::new();
    if !ctx.quick() {
        v.push(scenario("CL2048", move |c| run::<CL2048Sha256>(c, 200, 2)));
    }
    let nmax = ctx.t(3usize, 4usize);
    for i in 0..ctx.t(1u64, 3u64) {
        v.push(scenario("CL1024", move |c| run::<CL1024Sha256>(c, i, nmax)));
    }
    // many attributes, hidden positions deep in the vector
    let quick = ctx.quick();
    v.push(scenario("CL1024/large-n", move |c| {
        let mut r = c.rng("c19-large", 0);
        let shapes: Vec<(usize, Vec<usize>)> = if quick {
            vec![(70, vec![5, 64]), (33, vec![32]), (48, (0..45).collect())]
        } else {
            vec![(70, vec![5, 64]), (96, vec![31, 69, 95]), (33, vec![32]), (130, vec![0, 64, 128, 129]), (17, vec![16]), (48, (0..45).collect()), (70, (0..70).collect())]
        };
        let bundles = large_bundles::<CL1024Sha256>(c, &mut r, &shapes);
        c.count("proofs_attacked", bundles.len() as u64);
        c.count("large_attribute_count_proofs", bundles.len() as u64);
        par_for_each(&bundles, 8, |b| attack(c, b));
    }));
    v
}

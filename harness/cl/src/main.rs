//! zkmon-cl: runtime monitors for the CL03 properties C13..C19 of zkryptium.

#![allow(non_snake_case)]

#[path = "../../bbs/src/common.rs"]
mod common;

mod bundles;
mod clutil;

mod c13;
mod c14;
mod c15;
mod c16;
mod c17;
mod c18;
mod c19;

use common::{Ctx, Tier};
use serde_json::json;

#[global_allocator]
static ALLOC: common::alloc_count::Counting = common::alloc_count::Counting;

fn arg(args: &[String], name: &str) -> Option<String> {
    args.iter().position(|a| a == name).and_then(|i| args.get(i + 1).cloned())
}

fn main() {
    let args: Vec<String> = std::env::args().collect();
    if args.len() < 2 {
        eprintln!("usage: zkmon-cl <Cnn> --tier quick|thorough --seed N --out FILE");
        std::process::exit(2);
    }
    let prop = args[1].clone();
    let tier = match arg(&args, "--tier").as_deref() {
        Some("thorough") => Tier::Thorough,
        _ => Tier::Quick,
    };
    let seed: u64 = arg(&args, "--seed").and_then(|s| s.parse().ok()).unwrap_or(1);
    let out = arg(&args, "--out");
    let log = arg(&args, "--log");
    let threads: usize = arg(&args, "--threads").and_then(|s| s.parse().ok()).unwrap_or(16);
    let t0 = std::time::Instant::now();
    let mut ctx = Ctx::new(&prop, tier, seed, log.as_deref());
    ctx.only_scenario = arg(&args, "--only-scenario").and_then(|s| s.parse().ok());
    ctx.set_extra("threads", json!(threads));
    let scenarios = match prop.as_str() {
        "C13" => c13::scenarios(&ctx),
        "C14" => c14::scenarios(&ctx),
        "C15" => c15::scenarios(&ctx),
        "C16" => c16::scenarios(&ctx),
        "C17" => c17::scenarios(&ctx),
        "C18" => c18::scenarios(&ctx),
        "C19" => c19::scenarios(&ctx),
        _ => {
            eprintln!("unknown property {}", prop);
            std::process::exit(2);
        }
    };
    // library prints diagnostics with println!; keep panics of monitored calls out of stderr
    std::panic::set_hook(Box::new(|_| {}));
    common::run_scenarios(&ctx, scenarios, threads);
    let _ = std::panic::take_hook();
    match prop.as_str() {
        "C13" => c13::finish(&ctx),
        "C18" => c18::finish(&ctx),
        _ => {}
    }
    let res = ctx.finish(t0.elapsed().as_secs_f64());
    let s = serde_json::to_string(&res).unwrap();
    match out {
        Some(p) => std::fs::write(p, s).unwrap(),
        None => println!("{}", s),
    }
}

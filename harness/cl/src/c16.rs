//! C16 — Boudot range proof: in-range values prove, nothing else is accepted.

use crate::clutil::*;
use crate::common::*;
use rug::{ops::Pow, Integer};
use serde_json::{json, Value};
use sha2::Sha256;
use zkryptium::cl03::commitment::CL03Commitment;
use zkryptium::cl03::range_proof::Boudot2000RangeProof as Rp;

const T_: u32 = 128;
const L_: u32 = 40;

fn commit(x: &Integer, r: &Integer, g: &Integer, h: &Integer, n: &Integer) -> Integer {
    mulm(&powm(g, x, n), &powm(h, r, n), n)
}

/// public quantities of the "proof with tolerance": (T, aa, bb)
fn tol(a: &Integer, b: &Integer) -> (u32, Integer, Integer) {
    // the scaled interval [2^T a, 2^T b] of Boudot's proof without tolerance (after the F15 fix: no offsets)
    let t = 2 * (T_ + L_ + 1) + Integer::from(b - a).significant_bits();
    let aa = Integer::from(2).pow(t) * a;
    let bb = Integer::from(2).pow(t) * b;
    (t, aa, bb)
}

/// the bound on the remainders that both sides use in the larger-interval sub-proofs
fn remainder_bound(a: &Integer, b: &Integer) -> Integer {
    let t = 2 * (T_ + L_ + 1) + Integer::from(b - a).significant_bits();
    Integer::from(2) * (Integer::from(2).pow(t) * Integer::from(b - a)).sqrt() + 2u32
}

fn inv(x: &Integer, n: &Integer) -> Integer {
    x.clone().invert(n).expect("invertible")
}

fn one_interval<C: Cs>(ctx: &Ctx, st: &Setup<C>, other: Option<&Setup<C>>, r: &mut impl rand::RngCore, a: Integer, w: Integer, tamper: bool) {
    let (g, h, n) = (&st.cpk.g_bases[0], &st.cpk.h, &st.cpk.N);
    let b = Integer::from(&a + &w);
    let case = format!("{}/a={}b/w={}b", C::NAME, a.significant_bits(), w.significant_bits());
    let mid = Integer::from(&a + Integer::from(&w / 2u32));
    let rnd = Integer::from(&a + rand_int_bits(r, w.significant_bits().max(1)) % Integer::from(&w + 1u32));
    let inside: Vec<(&str, Integer)> = vec![("a", a.clone()), ("a+1", Integer::from(&a + 1u32)), ("mid", mid), ("b-1", Integer::from(&b - 1u32)), ("b", b.clone()), ("random", rnd)];
    let mut honest: Option<(Integer, Integer, Rp, Integer)> = None; // (x, r, proof, E)
    for (nm, x) in &inside {
        if x < &a || x > &b {
            continue;
        }
        let full = format!("{}/x={}", case, nm);
        ctx.distinct(&full);
        let rr = rand_int_bits(r, C::ln);
        let e = commit(x, &rr, g, h, n);
        let c = CL03Commitment { value: e.clone(), randomness: rr.clone() };
        let p = ctx.call("Boudot::prove", &full, None, || Ok::<_, ()>(Rp::prove::<Sha256>(x, &c, g, h, n, &a, &b)));
        let Some(p) = p.value else {
            ctx.violation("C16:prove-panicked-for-in-range-value", json!({"case":full,"a":ihex(&a),"b":ihex(&b),"x":ihex(x),"outcome":p.outcome.short()}));
            continue;
        };
        let v = ctx.call("Boudot::verify", &full, None, || Ok::<_, ()>(p.verify::<Sha256>(g, h, n, &a, &b)));
        if v.value != Some(true) {
            ctx.violation("C16:honest-proof-rejected", json!({"case":full,"a":ihex(&a),"b":ihex(&b),"x":ihex(x),"outcome":format!("{:?}/{}", v.value, v.outcome.short())}));
            continue;
        }
        if p.E != e {
            ctx.violation("C16:proof-not-about-the-commitment", json!({"case":full}));
        }
        if *nm == "mid" || honest.is_none() {
            honest = Some((x.clone(), rr, p, e));
        }
    }
    // out-of-range values: the honest prover yields no accepted proof
    let outside: Vec<(String, Integer)> = vec![
        ("a-1".into(), Integer::from(&a - 1u32)),
        ("b+1".into(), Integer::from(&b + 1u32)),
        ("a-2^20".into(), Integer::from(&a - (Integer::from(1) << 20))),
        ("b+2^20".into(), Integer::from(&b + (Integer::from(1) << 20))),
        ("a-2^300".into(), Integer::from(&a - (Integer::from(1) << 300))),
        ("b+2^300".into(), Integer::from(&b + (Integer::from(1) << 300))),
        ("2b+1".into(), Integer::from(&b * 2u32) + 1u32),
    ];
    for (nm, x) in &outside {
        let full = format!("{}/x={}", case, nm);
        ctx.distinct(&full);
        let rr = rand_int_bits(r, C::ln);
        let e = commit(x, &rr, g, h, n);
        let c = CL03Commitment { value: e, randomness: rr };
        let p = ctx.call("Boudot::prove", &full, None, || Ok::<_, ()>(Rp::prove::<Sha256>(x, &c, g, h, n, &a, &b)));
        if let Some(p) = p.value {
            let v = ctx.call("Boudot::verify", &full, None, || Ok::<_, ()>(p.verify::<Sha256>(g, h, n, &a, &b)));
            if v.value == Some(true) {
                ctx.violation("C16:out-of-range-value-proved", json!({"case":full,"a":ihex(&a),"b":ihex(&b),"x":ihex(x)}));
            }
        } else {
            ctx.count("out_of_range_prover_refused_by_panic", 1);
        }
    }
    // the empty interval [b, a]: no value lies in it, so no proof made for it may verify against it
    {
        let full = format!("{}/descending-bounds", case);
        ctx.distinct(&full);
        let x = Integer::from(&a + Integer::from(&w / 2u32));
        let rr = rand_int_bits(r, C::ln);
        let c = CL03Commitment { value: commit(&x, &rr, g, h, n), randomness: rr };
        let p = ctx.call("Boudot::prove", &full, None, || Ok::<_, ()>(Rp::prove::<Sha256>(&x, &c, g, h, n, &b, &a)));
        if let Some(p) = p.value {
            let v = ctx.call("Boudot::verify", &full, None, || Ok::<_, ()>(p.verify::<Sha256>(g, h, n, &b, &a)));
            if v.value == Some(true) {
                ctx.violation("C16:proof-for-empty-interval-accepted", json!({"case":full,"rmin":ihex(&b),"rmax":ihex(&a),"x":ihex(&x)}));
            }
        } else {
            ctx.count("out_of_range_prover_refused_by_panic", 1);
        }
    }
    let Some((x, _rr, proof, e)) = honest else { return };
    let j = serde_json::to_value(&proof).unwrap();
    let reject = |kind: &str, f: &dyn Fn() -> bool| {
        let full = format!("{}/{}", case, kind);
        ctx.distinct(&full);
        let v = ctx.call("Boudot::verify", &full, None, || Ok::<_, ()>(f()));
        if v.value == Some(true) {
            ctx.violation(&format!("C16:accepted/{}", kind.split('#').next().unwrap()), json!({"case":full,"a":ihex(&a),"b":ihex(&b),"x":ihex(&x)}));
        }
    };
    // other bounds, bases, modulus
    let one = Integer::from(1);
    if a > 0 {
        reject("bounds#a-1", &|| proof.verify::<Sha256>(g, h, n, &Integer::from(&a - &one), &b));
    }
    if Integer::from(&a + &one) < b {
        reject("bounds#a+1", &|| proof.verify::<Sha256>(g, h, n, &Integer::from(&a + &one), &b));
    }
    reject("bounds#b+1", &|| proof.verify::<Sha256>(g, h, n, &a, &Integer::from(&b + &one)));
    if Integer::from(&b - &one) > a {
        reject("bounds#b-1", &|| proof.verify::<Sha256>(g, h, n, &a, &Integer::from(&b - &one)));
    }
    reject("bounds#shifted", &|| proof.verify::<Sha256>(g, h, n, &Integer::from(&a + &w), &Integer::from(&b + &w)));
    // the empty interval [b, a] (bounds in descending order), the point interval [a, a], negated bounds
    reject("bounds#swapped", &|| proof.verify::<Sha256>(g, h, n, &b, &a));
    reject("bounds#point", &|| proof.verify::<Sha256>(g, h, n, &a, &a));
    if Integer::from(-&b) != a {
        reject("bounds#negated", &|| proof.verify::<Sha256>(g, h, n, &Integer::from(-&b), &Integer::from(-&a)));
    }
    reject("bases#swapped", &|| proof.verify::<Sha256>(h, g, n, &a, &b));
    if st.cpk.g_bases.len() > 1 {
        reject("bases#other-g", &|| proof.verify::<Sha256>(&st.cpk.g_bases[1], h, n, &a, &b));
    }
    reject("bases#h-squared", &|| proof.verify::<Sha256>(g, &mulm(h, h, n), n, &a, &b));
    if let Some(o) = other {
        reject("modulus#other", &|| proof.verify::<Sha256>(g, h, &o.cpk.N, &a, &b));
        reject("modulus#other-with-its-bases", &|| proof.verify::<Sha256>(&o.cpk.g_bases[0], &o.cpk.h, &o.cpk.N, &a, &b));
    }
    // ---------------- transplants onto other commitments
    let (t, aa, bb) = tol(&a, &b);
    let get = |path: &str| leaves(&j).into_iter().find(|(p, _)| p == path).map(|x| x.1).expect(path);
    let targets: Vec<(String, Integer)> = vec![
        ("a-1".into(), commit(&Integer::from(&a - 1u32), &rand_int_bits(r, C::ln), g, h, n)),
        ("b+1".into(), commit(&Integer::from(&b + 1u32), &rand_int_bits(r, C::ln), g, h, n)),
        ("b+2^64".into(), commit(&Integer::from(&b + (Integer::from(1) << 64)), &rand_int_bits(r, C::ln), g, h, n)),
        ("10b".into(), commit(&Integer::from(&b * 10u32), &rand_int_bits(r, C::ln), g, h, n)),
        ("a-2^64".into(), commit(&Integer::from(&a - (Integer::from(1) << 64)), &rand_int_bits(r, C::ln), g, h, n)),
        ("random-element".into(), { let z = rand_int_bits(r, C::ln - 2); mulm(&z, &z, n) }),
        ("same-value-other-randomness".into(), commit(&x, &rand_int_bits(r, C::ln), g, h, n)),
    ];
    for (tn, e2) in &targets {
        if e2 == &e {
            continue;
        }
        let ep2 = powm(e2, &(Integer::from(1) << t), n);
        let ea2 = mulm(&ep2, &inv(&powm(g, &aa, n), n), n);
        let eb2 = mulm(&powm(g, &bb, n), &inv(&ep2, n), n);
        // variant 1 (keep the *_2 commitments and all sub-proofs, recompute *_1): F8's forgery
        let mut j1 = j.clone();
        set_leaf(&mut j1, "/E", e2);
        set_leaf(&mut j1, "/E_prime", &ep2);
        set_leaf(&mut j1, "/proof_of_tolerance/E_a_1", &mulm(&ea2, &inv(&get("/proof_of_tolerance/E_a_2"), n), n));
        set_leaf(&mut j1, "/proof_of_tolerance/E_b_1", &mulm(&eb2, &inv(&get("/proof_of_tolerance/E_b_2"), n), n));
        // variant 2 (keep *_1, recompute *_2)
        let mut j2 = j.clone();
        set_leaf(&mut j2, "/E", e2);
        set_leaf(&mut j2, "/E_prime", &ep2);
        set_leaf(&mut j2, "/proof_of_tolerance/E_a_2", &mulm(&ea2, &inv(&get("/proof_of_tolerance/E_a_1"), n), n));
        set_leaf(&mut j2, "/proof_of_tolerance/E_b_2", &mulm(&eb2, &inv(&get("/proof_of_tolerance/E_b_1"), n), n));
        // variant 3 (only E / E_prime replaced)
        let mut j3 = j.clone();
        set_leaf(&mut j3, "/E", e2);
        set_leaf(&mut j3, "/E_prime", &ep2);
        // variant 4: variant 1 plus the square proofs' own E fields re-pointed to the new E_*_1 (keeps F and proof_ss)
        let mut j4 = j1.clone();
        let l4 = leaves(&j1);
        let g4 = |p: &str| l4.iter().find(|(q, _)| q == p).unwrap().1.clone();
        set_leaf(&mut j4, "/proof_of_tolerance/proof_of_square_a/E", &g4("/proof_of_tolerance/E_a_1"));
        set_leaf(&mut j4, "/proof_of_tolerance/proof_of_square_b/E", &g4("/proof_of_tolerance/E_b_1"));
        for (vn, jj) in [("recompute-E_1", j1), ("recompute-E_2", j2), ("replace-E-only", j3), ("recompute-E_1+repoint-square-E", j4)] {
            let full = format!("{}/transplant/{}/{}", case, vn, tn);
            ctx.distinct(&full);
            let Ok(p2) = serde_json::from_value::<Rp>(jj) else { continue };
            let v = ctx.call("Boudot::verify", &full, None, || Ok::<_, ()>(p2.verify::<Sha256>(g, h, n, &a, &b)));
            if v.value == Some(true) {
                ctx.violation(&format!("C16:transplanted-proof-accepted/{}", vn), json!({"case":full,"target":tn,"a":ihex(&a),"b":ihex(&b),"honest_x":ihex(&x)}));
            }
            ctx.count("transplants", 1);
        }
    }
    // ---------------- field-wise edits
    if tamper {
        let variants = tampered_variants_mod(&j, r, 1000, Some(n));
        ctx.count("proof_tampered_variants", variants.len() as u64);
        par_for_each(&variants, 4, |(kind, path, j2): &(String, String, Value)| {
            let cls = path_class(path);
            let full = format!("{}/tamper/{}/{}", case, kind, path);
            ctx.distinct(&format!("{}/tamper/{}/{}", C::NAME, kind, cls));
            let Ok(p2) = serde_json::from_value::<Rp>(j2.clone()) else { return };
            let v = ctx.call("Boudot::verify", &full, None, || Ok::<_, ()>(p2.verify::<Sha256>(g, h, n, &a, &b)));
            if v.value == Some(true) {
                ctx.violation(&format!("C16:tampered-proof-accepted/{}", cls), json!({"case":full,"edit":kind,"leaf":path}));
            }
        });
    }
    ctx.sample(json!({"case":case,"a":ihex(&a),"b":ihex(&b),"honest_x":ihex(&x),"T":t,"integer_leaves":leaves(&j).len(),"tampered":tamper}));
}

fn run<C: Cs>(ctx: &Ctx, idx: u64, part: usize, parts: usize) {
    let mut r = ctx.rng("c16", idx);
    let Some(st) = Setup::<C>::new(ctx, 2) else {
        ctx.inconclusive("C16: key generation panicked (C18's business)");
        return;
    };
    let other = Setup::<C>::new(ctx, 1);
    // lower bounds: zero, small, huge, random - and negative ones (the interval may lie below or straddle zero)
    let starts: Vec<Integer> = vec![
        Integer::from(0), Integer::from(1), (Integer::from(1) << (C::le - 1)) + 1u32, rand_int_bits(&mut r, 256),
        Integer::from(-1), Integer::from(-1000), Integer::from(-(Integer::from(1) << 64u32)), Integer::from(-rand_int_bits(&mut r, 256)),
    ];
    let mut widths: Vec<Integer> = vec![1u32, 2, 3, 4, 255, 256].into_iter().map(Integer::from).collect();
    widths.push(Integer::from(1) << 64);
    widths.push((Integer::from(1) << 256) - 1u32);
    widths.push((Integer::from(1) << (C::le - 1)) - 2u32);
    widths.push((Integer::from(1) << 1024) - 1u32);
    if !ctx.quick() {
        for k in [5u32, 7, 16, 17, 100, 511, 512] {
            widths.push((Integer::from(1) << k) + (k % 3));
        }
    }
    let mut k = 0;
    for a in &starts {
        for w in &widths {
            k += 1;
            if k % parts != part {
                continue;
            }
            let tamper = ctx.t(k % 13 == 1, k % 4 == 1);
            one_interval::<C>(ctx, &st, other.as_ref(), &mut r, a.clone(), w.clone(), tamper);
        }
    }
}

/// many honest proofs on small mixed intervals: completeness must not depend on rare shapes of the
/// Fiat-Shamir challenges (leading zero bytes etc.); each range proof contains four hashed challenges
fn volume<C: Cs>(ctx: &Ctx, idx: u64, count: usize) {
    let mut r = ctx.rng("c16v", idx);
    let Some(st) = Setup::<C>::new(ctx, 1) else {
        ctx.inconclusive("C16: key generation panicked (C18's business)");
        return;
    };
    let (g, h, n) = (st.cpk.g_bases[0].clone(), st.cpk.h.clone(), st.cpk.N.clone());
    let items: Vec<(Integer, Integer, Integer, Integer)> = (0..count)
        .map(|k| {
            let a = Integer::from(k as u32 % 7);
            let w = Integer::from(1) << (1 + (k as u32 % 40));
            let x = Integer::from(&a + rand_int_bits(&mut r, 1 + (k as u32 % 40)));
            (a, w, x, rand_int_bits(&mut r, C::ln))
        })
        .collect();
    let short = std::sync::atomic::AtomicU64::new(0);
    par_for_each(&items, 16, |(a, w, x, rr)| {
        let b = Integer::from(a + w);
        let e = commit(x, rr, &g, &h, &n);
        let c = CL03Commitment { value: e, randomness: rr.clone() };
        let case = format!("{}/volume/w={}b", C::NAME, w.significant_bits());
        ctx.distinct(&format!("{}/x={}", case, x));
        let p = ctx.call("Boudot::prove", &case, None, || Ok::<_, ()>(Rp::prove::<Sha256>(x, &c, &g, &h, &n, a, &b)));
        let Some(p) = p.value else {
            ctx.violation("C16:prove-panicked-for-in-range-value", json!({"case":case,"a":ihex(a),"b":ihex(&b),"x":ihex(x)}));
            return;
        };
        let v = ctx.call("Boudot::verify", &case, None, || Ok::<_, ()>(p.verify::<Sha256>(&g, &h, &n, a, &b)));
        if v.value != Some(true) {
            let j = serde_json::to_value(&p).unwrap();
            let ch: Vec<u32> = leaves(&j).iter().filter(|(p, _)| p.ends_with("/challenge") || p.ends_with("/C")).map(|(_, v)| v.significant_bits()).collect();
            ctx.violation("C16:honest-proof-rejected", json!({"case":case,"a":ihex(a),"b":ihex(&b),"x":ihex(x),"challenge_bit_lengths":ch}));
        }
        let j = serde_json::to_value(&p).unwrap();
        if leaves(&j).iter().any(|(p, v)| (p.ends_with("/challenge") || p.ends_with("/C")) && v.significant_bits() <= 248) {
            short.fetch_add(1, std::sync::atomic::Ordering::Relaxed);
        }
    });
    ctx.count("volume_honest_proofs", count as u64);
    ctx.count("volume_proofs_with_a_short_challenge(<=248 bits)", short.load(std::sync::atomic::Ordering::Relaxed));
}

/// A prover that does not follow the protocol: it knows an out-of-range x and the opening of its commitment, picks
/// the square parts of the two decompositions freely (remainders may be negative) and lets the library's own
/// sub-provers do the rest (hook `hook_prove_with_decomposition`, feature verif_hooks). The verifier must refuse.
/// Control: the same hook with the honest decomposition of an in-range value must be accepted.
fn cheating_prover<C: Cs>(ctx: &Ctx, idx: u64) {
    let mut r = ctx.rng("c16c", idx);
    let Some(st) = Setup::<C>::new(ctx, 1) else {
        ctx.inconclusive("C16: key generation panicked (C18's business)");
        return;
    };
    let (g, h, n) = (st.cpk.g_bases[0].clone(), st.cpk.h.clone(), st.cpk.N.clone());
    let one = Integer::from(1);
    let intervals: Vec<(Integer, Integer)> = vec![
        (Integer::from(0), (one.clone() << 256u32) - 1u32),
        (Integer::from(0), Integer::from(255)),
        (Integer::from(1000), Integer::from(2000)),
        (Integer::from(18), Integer::from(120)),
        (one.clone() << 64u32, (one.clone() << 64u32) + (one.clone() << 32u32)),
        ((one.clone() << (C::le - 1)) + 1u32, (one.clone() << C::le) - 1u32),
        (Integer::from(-1000), Integer::from(24)),
    ];
    for (a, b) in intervals {
        let (t, aa, bb) = tol(&a, &b);
        let w = Integer::from(&b - &a);
        let icase = format!("{}/cheat/[{}b,+{}b]", C::NAME, a.significant_bits(), w.significant_bits());
        // bounds the cheating prover may claim in its larger-interval sub-proofs: the protocol's own, wider ones, and
        // the one the pinned tree used (2^T * rmax, F15). Its sub-prover answers for |remainder| < bound * 2^(l-3).
        let own = remainder_bound(&a, &b);
        // a ladder in steps of 2 up to own * 2^(T+16): the cheater claims the SMALLEST bound under which its sub-prover
        // still answers, so that a verifier whose bound is too wide by any factor sees responses inside its window
        let mut claims: Vec<(String, Option<Integer>)> = vec![("own".to_string(), None)];
        let mut k = 1u32;
        while k <= t + 16 {
            claims.push((format!("own*2^{k}"), Some(Integer::from(&own << k))));
            k += 1;
        }
        claims.push(("2^T*max(|b|,1)".to_string(), Some(Integer::from(&b.clone().abs().max(one.clone()) << t))));
        let mut targets: Vec<(&str, Integer)> = vec![
            ("control:a", a.clone()), ("control:b", b.clone()), ("control:mid", Integer::from(&a + Integer::from(&w / 2u32))),
            ("a-1", Integer::from(&a - 1u32)), ("a-2", Integer::from(&a - 2u32)), ("a-2^20", Integer::from(&a - (one.clone() << 20u32))),
            ("a-width", Integer::from(&a - &w)), ("b+1", Integer::from(&b + 1u32)), ("b+2", Integer::from(&b + 2u32)),
            ("b+2^20", Integer::from(&b + (one.clone() << 20u32))), ("b+width", Integer::from(&b + &w)), ("2b+1", Integer::from(&b * 2u32) + 1u32),
        ];
        targets.push(("a-random64", Integer::from(&a - rand_int_bits(&mut r, 64))));
        targets.push(("b+random64", Integer::from(&b + rand_int_bits(&mut r, 64))));
        for (tn, x) in targets {
            let case = format!("{}/{}", icase, tn);
            ctx.distinct(&case);
            let control = tn.starts_with("control");
            let xp = Integer::from(&x << t);
            let xa = Integer::from(&xp - &aa);
            let xb = Integer::from(&bb - &xp);
            let sq = |v: &Integer| if *v >= 0 { v.clone().sqrt() } else { Integer::from(0) };
            let (sa, sb) = (sq(&xa), sq(&xb));
            let (ra, rb) = (Integer::from(&xa - sa.clone().pow(2)), Integer::from(&xb - sb.clone().pow(2)));
            // the smallest claimed bound under which the sub-prover can answer for both remainders
            let need = ra.clone().abs().max(rb.clone().abs());
            let Some((cn, claim)) = claims.iter().find(|(_, c)| need <= Integer::from(c.as_ref().unwrap_or(&own) << L_)) else {
                ctx.count("cheating_targets_beyond_the_sub_prover's_reach", 1);
                continue;
            };
            if control && claim.is_some() {
                ctx.inconclusive("C16: honest remainders exceed the protocol's own bound (harness formula out of date?)");
                continue;
            }
            ctx.count(&format!("cheating_prover_claimed_bound[{}]", if claim.is_none() { "own" } else { "wider" }), 1);
            let _ = cn;
            // a response lands inside a too-wide verifier window only with some probability: several attempts per target
            let attempts = if control { 1 } else { 8 };
            let mut last = None;
            let mut built = false;
            for _ in 0..attempts {
                let rr = rand_int_bits(&mut r, C::ln);
                let c = CL03Commitment { value: commit(&x, &rr, &g, &h, &n), randomness: rr };
                let p = ctx.call("Boudot::hook_prove_with_decomposition", &case, None, || Ok::<_, ()>(Rp::hook_prove_with_decomposition::<Sha256>(&x, &c, &g, &h, &n, &a, &b, &sa, &sb, claim.as_ref())));
                let Some(p) = p.value else { continue };
                built = true;
                let v = ctx.call("Boudot::verify", &case, None, || Ok::<_, ()>(p.verify::<Sha256>(&g, &h, &n, &a, &b)));
                let accepted = v.value == Some(true);
                last = Some(v);
                if accepted {
                    break;
                }
            }
            if !built {
                if control {
                    ctx.inconclusive("C16: the cheating-prover hook failed on an honest decomposition (harness / hook problem)");
                }
                ctx.count("cheating_prover_could_not_build_a_proof", 1);
                continue;
            }
            let v = last.unwrap();
            if control {
                if v.value == Some(true) {
                    ctx.count("cheating_prover_controls_accepted", 1);
                } else {
                    ctx.inconclusive("C16: the cheating-prover hook's honest control was rejected (harness / hook problem)");
                }
                continue;
            }
            ctx.count("cheating_prover_proofs_submitted", 1);
            if v.value == Some(true) {
                ctx.violation(&format!("C16:out-of-range-value-proved-by-cheating-prover/{}", tn.trim_end_matches(char::is_numeric).trim_end_matches("random")),
                    json!({"case":case,"a":ihex(&a),"b":ihex(&b),"x":ihex(&x),"x_minus_a":Integer::from(&x - &a).to_string(),"x_minus_b":Integer::from(&x - &b).to_string(),
                           "remainder_a_bits":ra.significant_bits(),"remainder_a_negative":ra < 0,"remainder_b_bits":rb.significant_bits(),"remainder_b_negative":rb < 0}));
            }
        }
    }
}

pub fn scenarios(ctx: &Ctx) -> Vec<Scenario> {
    use zkryptium::cl03::ciphersuites::{CL1024Sha256, CL2048Sha256};
    let mut v = Vec::new();
    let parts = ctx.t(8usize, 14usize);
    if !ctx.quick() {
        v.push(scenario("CL2048", move |c| run::<CL2048Sha256>(c, 200, 0, 6)));
    }
    for p in 0..parts {
        v.push(scenario(format!("CL1024/part{p}"), move |c| run::<CL1024Sha256>(c, p as u64, p, parts)));
    }
    for i in 0..ctx.t(1u64, 4u64) {
        v.push(scenario(format!("CL1024/cheating-prover{i}"), move |c| cheating_prover::<CL1024Sha256>(c, 700 + i)));
    }
    let count = ctx.t(1500usize, 12000usize);
    v.push(scenario("CL1024/volume", move |c| volume::<CL1024Sha256>(c, 900, count)));
    v
}

//! Honest CL03 proofs as the other party receives them (serde_json view) together with what the
//! prover legitimately knows (secrets) and what is public (bases, modulus). Used by C17 and C19.

use crate::clutil::*;
use crate::common::*;
use rug::{ops::Pow, Integer};
use serde_json::Value;
use zkryptium::schemes::algorithms::CL03;
use zkryptium::schemes::generics::{Commitment, PoKSignature, Signature, ZKPoK};

pub struct Bundle {
    pub kind: &'static str, // "zkpok" | "spok"
    pub label: String,
    pub json: Value,
    pub n_mod: Integer,
    /// secrets the prover holds: (kind, value)
    pub secrets: Vec<(String, Integer)>,
    /// hidden attributes with their position
    pub hidden: Vec<(usize, Integer)>,
    /// public base pairs (label, g, h)
    pub base_pairs: Vec<(String, Integer, Integer)>,
    /// values each Boudot sub-proof answers for, derivable from a known secret and public bounds
    pub derived: Vec<(String, Integer)>,
    /// public inputs next to the proof (commitment value etc.)
    pub public_values: Vec<(String, Integer)>,
    /// Boudot range proofs inside the proof: (JSON path prefix, public a, public b, secret kind, secret)
    pub ranges: Vec<(String, Integer, Integer, String, Integer)>,
    /// base g of each range proof (same order as `ranges`)
    pub range_bases: Vec<Integer>,
}

const T_: u32 = 128;
const L_: u32 = 40;

/// square-decomposition witnesses of Boudot's proof for a value x in [a, b]
/// public quantities (T, aa, bb) of Boudot's proof with tolerance for the interval [a, b]
pub fn boudot_public(a: &Integer, b: &Integer) -> (u32, Integer, Integer) {
    // after the F15 fix the scaled interval carries no offsets: [2^T a, 2^T b]
    let t = 2 * (T_ + L_ + 1) + Integer::from(b - a).significant_bits();
    (t, Integer::from(2).pow(t) * a, Integer::from(2).pow(t) * b)
}

pub fn boudot_witnesses(tag: &str, x: &Integer, a: &Integer, b: &Integer) -> Vec<(String, Integer)> {
    let (t, aa, bb) = boudot_public(a, b);
    let xp = Integer::from(2).pow(t) * x;
    let xa = Integer::from(&xp - &aa);
    let xb = Integer::from(&bb - &xp);
    let xa1 = xa.clone().sqrt();
    let xb1 = xb.clone().sqrt();
    let xa2 = Integer::from(&xa - xa1.clone().pow(2));
    let xb2 = Integer::from(&xb - xb1.clone().pow(2));
    vec![
        (format!("{tag}:sqrt-witness-a"), xa1),
        (format!("{tag}:sqrt-witness-b"), xb1),
        (format!("{tag}:remainder-witness-a"), xa2),
        (format!("{tag}:remainder-witness-b"), xb2),
    ]
}

/// in half of the proofs one hidden attribute takes a boundary value of its range: 0, 1 or 2^lm - 1
fn boundary_hidden<C: Cs>(ctx: &Ctx, r: &mut impl rand::RngCore, msgs: &mut [zkryptium::utils::message::cl03_message::CL03Message], u: &[usize]) {
    let sel = rand_range(r, 6);
    if sel < 3 && !u.is_empty() {
        let i = u[rand_range(r, u.len())];
        msgs[i] = attribute::<C>(r, sel);
        ctx.count(&format!("proofs_with_hidden_boundary_value_{}", ["0", "1", "max"][sel]), 1);
    }
}

pub fn issuance_bundle<C: Cs>(ctx: &Ctx, st: &Setup<C>, r: &mut impl rand::RngCore, n: usize, u: &[usize]) -> Option<Bundle> {
    issuance_bundle_ext::<C>(ctx, st, r, n, u, None, false)
}

/// `trusted`: commitment key of a trusted party (own modulus) => the proof contains the "same secrets in C and
/// C_trusted" part; `equal_hidden`: all hidden attributes get the same value
pub fn issuance_bundle_ext<C: Cs>(
    ctx: &Ctx,
    st: &Setup<C>,
    r: &mut impl rand::RngCore,
    n: usize,
    u: &[usize],
    trusted: Option<&zkryptium::cl03::keys::CL03CommitmentPublicKey>,
    equal_hidden: bool,
) -> Option<Bundle> {
    let bases = st.bases_n(n);
    let mut msgs = attributes::<C>(r, n, 0);
    boundary_hidden::<C>(ctx, r, &mut msgs, u);
    if equal_hidden {
        for &i in u {
            msgs[i] = msgs[u[0]].clone();
        }
    }
    let commitment = Commitment::<CL03<C>>::commit_with_pk(&msgs, st.pk(), &bases, Some(u));
    let tc = trusted.map(|ck| Commitment::<CL03<C>>::commit_with_commitment_pk(&msgs, ck, Some(u)).cl03Commitment().clone());
    let label = format!("{}/zkpok/n{}/U={:?}{}{}", C::NAME, n, u, if trusted.is_some() { "/trusted" } else { "" }, if equal_hidden { "/equal-hidden" } else { "" });
    let zk = ctx
        .call("ZKPoK::generate_proof", &label, None, || {
            Ok::<_, ()>(ZKPoK::<CL03<C>>::generate_proof(&msgs, commitment.cl03Commitment(), tc.as_ref(), st.pk(), &bases, trusted, u))
        })
        .value?;
    let pk = st.pk();
    let rr = commitment.randomness().clone();
    let mut secrets: Vec<(String, Integer)> = u.iter().map(|&i| ("hidden-attribute".to_string(), msgs[i].value.clone())).collect();
    secrets.push(("commitment-randomness".into(), rr.clone()));
    if let Some(t) = &tc {
        secrets.push(("trusted-commitment-randomness".into(), t.randomness.clone()));
    }
    let mut derived = vec![];
    let mut ranges = vec![];
    let mut range_bases = vec![];
    let max_x = Integer::from(2).pow(C::lm) - 1u32;
    for (k, &i) in u.iter().enumerate() {
        range_bases.push(bases.0[i].clone());
        derived.extend(boudot_witnesses("range_proofs_mi", &msgs[i].value, &Integer::from(0), &max_x));
        ranges.push((format!("/CL03/range_proofs_mi/{k}"), Integer::from(0), max_x.clone(), "hidden-attribute".to_string(), msgs[i].value.clone()));
    }
    let max_r = Integer::from(2).pow(C::ln) - 1u32;
    derived.extend(boudot_witnesses("range_proof_r", &rr, &Integer::from(0), &max_r));
    ranges.push(("/CL03/range_proof_r".into(), Integer::from(0), max_r, "commitment-randomness".into(), rr.clone()));
    range_bases.push(bases.0[0].clone());
    Some(Bundle {
        kind: "zkpok",
        label,
        json: serde_json::to_value(&zk).unwrap(),
        n_mod: pk.N.clone(),
        secrets,
        hidden: u.iter().map(|&i| (i, msgs[i].value.clone())).collect(),
        base_pairs: (0..n).map(|i| (format!("(a_{i},b)"), bases.0[i].clone(), pk.b.clone())).collect(),
        derived,
        public_values: vec![("C".into(), commitment.value().clone())],
        ranges,
        range_bases,
    })
}

pub fn spok_bundle<C: Cs>(ctx: &Ctx, st: &Setup<C>, r: &mut impl rand::RngCore, n: usize, u: &[usize]) -> Option<Bundle> {
    let bases = st.bases_n(n);
    let cpk = st.cpk_n(n);
    let mut msgs = attributes::<C>(r, n, 0);
    boundary_hidden::<C>(ctx, r, &mut msgs, u);
    let sig = Signature::<CL03<C>>::sign_multiattr(st.pk(), st.sk(), &bases, &msgs);
    let label = format!("{}/spok/n{}/U={:?}", C::NAME, n, u);
    let p = ctx
        .call("PoKSignature::proof_gen", &label, None, || Ok::<_, ()>(PoKSignature::<CL03<C>>::proof_gen(sig.cl03Signature(), &cpk, st.pk(), &bases, &msgs, u)))
        .value?;
    let sj = serde_json::to_value(&sig).unwrap();
    let sl = leaves(&sj);
    let get = |k: &str| sl.iter().find(|(p, _)| p.ends_with(k)).unwrap().1.clone();
    let (e, s, v) = (get("/e"), get("/s"), get("/v"));
    let mut secrets: Vec<(String, Integer)> = u.iter().map(|&i| ("hidden-attribute".to_string(), msgs[i].value.clone())).collect();
    secrets.push(("signature-exponent-e".into(), e.clone()));
    secrets.push(("signature-s".into(), s));
    secrets.push(("signature-v".into(), v));
    let (min_e, max_e) = (Integer::from(2).pow(C::le - 1) + 1u32, Integer::from(2).pow(C::le) - 1u32);
    let mut derived = boudot_witnesses("range_proof_e", &e, &min_e, &max_e);
    let mut ranges = vec![("/CL03/range_proof_e".to_string(), min_e, max_e, "signature-exponent-e".to_string(), e.clone())];
    let mut range_bases = vec![cpk.g_bases[0].clone()];
    let max_x = Integer::from(2).pow(C::lm) - 1u32;
    for (k, &i) in u.iter().enumerate() {
        range_bases.push(cpk.g_bases[i].clone());
        derived.extend(boudot_witnesses("range_proofs_commited_mi", &msgs[i].value, &Integer::from(0), &max_x));
        ranges.push((format!("/CL03/range_proofs_commited_mi/{k}"), Integer::from(0), max_x.clone(), "hidden-attribute".to_string(), msgs[i].value.clone()));
    }
    let mut base_pairs: Vec<(String, Integer, Integer)> = (0..n).map(|i| (format!("(g_{i},h)"), cpk.g_bases[i].clone(), cpk.h.clone())).collect();
    base_pairs.extend((0..n).map(|i| (format!("(a_{i},b)"), bases.0[i].clone(), st.pk().b.clone())));
    Some(Bundle {
        kind: "spok",
        label,
        json: serde_json::to_value(&p).unwrap(),
        n_mod: st.pk().N.clone(),
        secrets,
        hidden: u.iter().map(|&i| (i, msgs[i].value.clone())).collect(),
        base_pairs,
        derived,
        public_values: vec![],
        ranges,
        range_bases,
    })
}

/// presentation proofs made under a commitment key the VERIFIER chose badly: same h and bases, but a modulus that is far
/// longer than the suite's (N^2, N * 2^700 + 1). (A much SHORTER modulus makes the honest prover's randomness-splitting loop in
/// the range proof spin forever - a denial of service on the prover that is outside C17/C19 and is not exercised.) The prover is honest; what it sends must still
/// hide its secrets (nothing the verifier supplies may size the prover's randomness below what the blindings cover).
pub fn hostile_key_bundles<C: Cs>(ctx: &Ctx, st: &Setup<C>, r: &mut impl rand::RngCore, n: usize) -> Vec<Bundle> {
    let mut v = vec![];
    let nn = &st.cpk.N;
    let moduli: Vec<(&str, Integer)> = vec![
        ("N^2", Integer::from(nn * nn)),
        ("N*2^700+1", Integer::from(nn << 700u32) + 1u32),
    ];
    for (mn, m) in moduli {
        let u: Vec<usize> = (0..n).filter(|i| i % 2 == 0).collect();
        let bases = st.bases_n(n);
        let cpk = zkryptium::cl03::keys::CL03CommitmentPublicKey { N: m.clone(), h: Integer::from(&st.cpk.h % &m), g_bases: st.cpk.g_bases[..n].iter().map(|g| Integer::from(g % &m)).collect() };
        let msgs = attributes::<C>(r, n, 0);
        let sig = Signature::<CL03<C>>::sign_multiattr(st.pk(), st.sk(), &bases, &msgs);
        let label = format!("{}/spok/n{}/U={:?}/commitment-key-modulus={}", C::NAME, n, u, mn);
        let Some(p) = ctx.call("PoKSignature::proof_gen", &label, None, || Ok::<_, ()>(PoKSignature::<CL03<C>>::proof_gen(sig.cl03Signature(), &cpk, st.pk(), &bases, &msgs, &u))).value else {
            ctx.count("proof_gen_refused_hostile_commitment_key", 1);
            continue;
        };
        let sj = serde_json::to_value(&sig).unwrap();
        let sl = leaves(&sj);
        let get = |k: &str| sl.iter().find(|(p, _)| p.ends_with(k)).unwrap().1.clone();
        let (e, s_) = (get("/e"), get("/s"));
        let mut secrets: Vec<(String, Integer)> = u.iter().map(|&i| ("hidden-attribute".to_string(), msgs[i].value.clone())).collect();
        secrets.push(("signature-exponent-e".into(), e));
        secrets.push(("signature-s".into(), s_));
        let mut base_pairs: Vec<(String, Integer, Integer)> = (0..n).map(|i| (format!("(g_{i},h)"), cpk.g_bases[i].clone(), cpk.h.clone())).collect();
        base_pairs.extend((0..n).map(|i| (format!("(a_{i},b)"), bases.0[i].clone(), st.pk().b.clone())));
        v.push(Bundle {
            kind: "spok",
            label,
            json: serde_json::to_value(&p).unwrap(),
            n_mod: st.pk().N.clone(),
            secrets,
            hidden: u.iter().map(|&i| (i, msgs[i].value.clone())).collect(),
            base_pairs,
            derived: vec![],
            public_values: vec![],
            ranges: vec![],
            range_bases: vec![],
        });
    }
    v
}

/// large attribute counts with a few hidden positions (position-dependent code paths)
pub fn large_bundles<C: Cs>(ctx: &Ctx, r: &mut impl rand::RngCore, shapes: &[(usize, Vec<usize>)]) -> Vec<Bundle> {
    let mut v = vec![];
    let nmax = shapes.iter().map(|s| s.0).max().unwrap_or(0);
    if nmax == 0 {
        return v;
    }
    let Some(st) = Setup::<C>::new(ctx, nmax) else { return v };
    for (n, u) in shapes {
        match spok_bundle::<C>(ctx, &st, r, *n, u) {
            Some(b) => v.push(b),
            None => ctx.inconclusive("proof_gen panicked for a large attribute count (C15's business)"),
        }
        match issuance_bundle::<C>(ctx, &st, r, *n, u) {
            Some(b) => v.push(b),
            None => ctx.inconclusive("generate_proof panicked for a large attribute count (C14's business)"),
        }
    }
    v
}

/// issuance proofs tied to a trusted-party commitment (every non-empty hidden set) and proofs whose hidden
/// attributes are all equal
pub fn special_bundles<C: Cs>(ctx: &Ctx, st: &Setup<C>, r: &mut impl rand::RngCore, nmax: usize) -> Vec<Bundle> {
    let mut v = vec![];
    let own = ctx
        .call("CommitmentPublicKey::generate(own N)", "setup", None, || {
            Ok::<_, ()>(zkryptium::cl03::keys::CL03CommitmentPublicKey::generate::<C>(None, Some(nmax)))
        })
        .value;
    for n in 1..=nmax {
        for u in all_subsets(n) {
            if u.is_empty() {
                continue;
            }
            if let Some(ck) = &own {
                let ckn = zkryptium::cl03::keys::CL03CommitmentPublicKey { N: ck.N.clone(), h: ck.h.clone(), g_bases: ck.g_bases[..n].to_vec() };
                if let Some(b) = issuance_bundle_ext::<C>(ctx, st, r, n, &u, Some(&ckn), false) {
                    v.push(b);
                }
            }
            if u.len() >= 2 {
                if let Some(b) = issuance_bundle_ext::<C>(ctx, st, r, n, &u, None, true) {
                    v.push(b);
                }
            }
        }
    }
    v
}

/// all bundles for one setup: every hidden subset (non-empty for issuance)
pub fn all_bundles<C: Cs>(ctx: &Ctx, st: &Setup<C>, r: &mut impl rand::RngCore, nmax: usize) -> Vec<Bundle> {
    let mut v = vec![];
    for n in 1..=nmax {
        for u in all_subsets(n) {
            if !u.is_empty() {
                match issuance_bundle::<C>(ctx, st, r, n, &u) {
                    Some(b) => v.push(b),
                    None => ctx.inconclusive("generate_proof panicked (C14's business)"),
                }
            }
            match spok_bundle::<C>(ctx, st, r, n, &u) {
                Some(b) => v.push(b),
                None => ctx.inconclusive("proof_gen panicked (C15's business)"),
            }
        }
    }
    v
}

/// sorted index over candidate secret values: all entries within `bound` of a query, by binary search
pub struct SecretIndex {
    v: Vec<(Integer, usize)>,
}

impl SecretIndex {
    pub fn new<'a>(vals: impl Iterator<Item = (usize, &'a Integer)>) -> Self {
        let mut v: Vec<(Integer, usize)> = vals.map(|(i, x)| (x.clone(), i)).collect();
        v.sort();
        SecretIndex { v }
    }
    /// indexes of the entries x with |q - x| < bound
    pub fn near(&self, q: &Integer, bound: &Integer) -> Vec<usize> {
        let lo = Integer::from(q - bound);
        let hi = Integer::from(q + bound);
        let start = self.v.partition_point(|e| e.0 <= lo);
        self.v[start..].iter().take_while(|e| e.0 < hi).map(|e| e.1).collect()
    }
}

/// Linear-combination attack on sibling responses (elements of the same response array share one challenge):
/// (s_j - s_k) / c must not be the difference of two of the prover's secrets, and equal secrets must not produce
/// equal responses. Returns (array field, divisor label, what is revealed).
pub fn sibling_difference_attack(b: &Bundle, challenges: &[(String, Integer)]) -> Vec<(String, String, String)> {
    let ls = leaves(&b.json);
    let bound = Integer::from(1) << 64;
    let mut found = vec![];
    let mut groups: std::collections::BTreeMap<String, Vec<&Integer>> = Default::default();
    for (p, v) in &ls {
        if let Some((parent, last)) = p.rsplit_once('/') {
            if last.chars().all(|c| c.is_ascii_digit()) {
                groups.entry(path_class(parent)).or_default().push(v);
            }
        }
    }
    let hid: Vec<&Integer> = b.hidden.iter().map(|(_, m)| m).collect();
    // all differences m_a - m_b of two hidden attributes that are at least 2^64 in magnitude, indexed for lookup
    let mut diffs: Vec<Integer> = vec![];
    for a in 0..hid.len() {
        for bb in 0..hid.len() {
            if a != bb {
                let dx = Integer::from(hid[a] - hid[bb]);
                if dx.clone().abs() >= bound {
                    diffs.push(dx);
                }
            }
        }
    }
    let index = SecretIndex::new(diffs.iter().enumerate());
    // challenges that can multiply the responses of a sibling array: the distinct values only
    let mut chs: Vec<(&String, &Integer)> = vec![];
    let mut seen_c = std::collections::HashSet::new();
    for (cn, c) in challenges {
        if *c != 0 && seen_c.insert(c.clone()) {
            chs.push((cn, c));
        }
    }
    for (field, vals) in &groups {
        for j in 0..vals.len() {
            for k in 0..vals.len() {
                if j == k {
                    continue;
                }
                if vals[j] == vals[k] && j < k && vals[j].significant_bits() > 64 {
                    found.push((field.clone(), "equal-sibling-responses".to_string(), "equality-of-hidden-attributes".to_string()));
                }
                if diffs.is_empty() {
                    continue;
                }
                let diff = Integer::from(vals[j] - vals[k]);
                for (cn, c) in &chs {
                    let q = Integer::from(&diff / *c);
                    if !index.near(&q, &bound).is_empty() {
                        let cl: String = cn.split(':').next().unwrap().chars().map(|ch| if ch.is_ascii_digit() { 'i' } else { ch }).collect();
                        found.push((field.clone(), format!("difference/challenge[{}]", cl), "difference-of-hidden-attributes".to_string()));
                    }
                }
            }
        }
    }
    found.sort();
    found.dedup();
    found
}

//! C18 — CL03 keys and parameters are well formed and survive their encodings.
//! The worker only RECORDS what `generate` returned; an independent offline checker (Python ints,
//! own Miller-Rabin / Euler criterion, lib/cl_offline.py) decides the number-theoretic part.

use crate::clutil::*;
use crate::common::*;
use rug::Integer;
use serde_json::{json, Value};
use std::sync::Mutex;
use zkryptium::cl03::bases::Bases;
use zkryptium::cl03::keys::{CL03CommitmentPublicKey, CL03PublicKey, CL03SecretKey};
use zkryptium::keys::pair::KeyPair;
use zkryptium::schemes::algorithms::CL03;
use zkryptium::schemes::generics::Signature;
use zkryptium::utils::random::{rand_int, random_bits};

pub static RECORDS: Mutex<Vec<Value>> = Mutex::new(Vec::new());

fn h(i: &Integer) -> String {
    i.to_string_radix(16)
}

fn keys<C: Cs>(ctx: &Ctx, idx: u64, own_modulus_key: bool) {
    let mut r = ctx.rng("c18", idx);
    let case = format!("{}/key{}", C::NAME, idx);
    ctx.distinct(&case);
    let Some(kp) = ctx.call(&format!("KeyPair::generate/{}", C::NAME), &case, None, || Ok::<_, ()>(KeyPair::<CL03<C>>::generate())).value else {
        ctx.violation("C18:keygen-panicked", json!({"case":case}));
        return;
    };
    let (pk, sk) = (kp.public_key().clone(), kp.private_key().clone());
    let n_attr = 1 + rand_range(&mut r, 5);
    let bases = Bases::generate(&pk, n_attr);
    let cpk = CL03CommitmentPublicKey::generate::<C>(Some(pk.N.clone()), Some(n_attr));
    let mut rec = json!({
        "suite": C::NAME, "secparam": C::SECPARAM, "case": case,
        "N": h(&pk.N), "p": h(&sk.p), "q": h(&sk.q), "b": h(&pk.b), "c": h(&pk.c),
        "a_bases": bases.0.iter().map(h).collect::<Vec<_>>(),
        "cpk_issuer": {"N": h(&cpk.N), "h": h(&cpk.h), "g": cpk.g_bases.iter().map(h).collect::<Vec<_>>()},
    });
    if cpk.N != pk.N {
        ctx.violation("C18:commitment-key-ignores-issuer-modulus", json!({"case":case}));
    }
    if cpk.g_bases.len() != n_attr || bases.0.len() != n_attr {
        ctx.violation("C18:wrong-number-of-bases", json!({"case":case,"asked":n_attr,"bases":bases.0.len(),"g":cpk.g_bases.len()}));
    }
    if own_modulus_key {
        if let Some(own) = ctx.call("CommitmentPublicKey::generate(own N)", &case, None, || Ok::<_, ()>(CL03CommitmentPublicKey::generate::<C>(None, Some(2)))).value {
            rec["cpk_own"] = json!({"N": h(&own.N), "h": h(&own.h), "g": own.g_bases.iter().map(h).collect::<Vec<_>>()});
            let js = serde_json::to_string(&own).unwrap();
            if serde_json::from_str::<CL03CommitmentPublicKey>(&js).ok().as_ref() != Some(&own) {
                ctx.violation("C18:roundtrip/commitment-key/json", json!({"case":case}));
            }
        }
    }
    // codecs
    let pkb = ctx.call_plain("PublicKey::to_bytes", &case, || pk.to_bytes::<CL03<C>>()).value;
    match pkb.as_ref().and_then(|b| ctx.call("PublicKey::from_bytes", &case, None, || Ok::<_, ()>(CL03PublicKey::from_bytes::<CL03<C>>(b))).value) {
        Some(pk2) if pk2 == pk => {}
        _ => ctx.violation("C18:roundtrip/public-key/bytes", json!({"case":case})),
    }
    let skb = ctx.call_plain("SecretKey::to_bytes", &case, || sk.to_bytes::<CL03<C>>()).value;
    match skb.as_ref().and_then(|b| ctx.call("SecretKey::from_bytes", &case, None, || Ok::<_, ()>(CL03SecretKey::from_bytes::<CL03<C>>(b))).value) {
        Some(sk2) if sk2 == sk => {}
        _ => ctx.violation("C18:roundtrip/secret-key/bytes", json!({"case":case})),
    }
    if let Some(mode) = json_modes(&pk) {
        ctx.violation("C18:roundtrip/public-key/json", json!({"case":case,"mode":mode}));
    }
    if let Some(mode) = json_modes(&sk) {
        ctx.violation("C18:roundtrip/secret-key/json", json!({"case":case,"mode":mode}));
    }
    if let Some(mode) = json_modes(&kp) {
        ctx.violation("C18:roundtrip/key-pair/json", json!({"case":case,"mode":mode}));
    }
    if let Some(mode) = json_modes(&cpk) {
        ctx.violation("C18:roundtrip/commitment-key/json", json!({"case":case,"mode":mode}));
    }
    let bj = serde_json::to_string(&bases).unwrap();
    if serde_json::from_str::<Bases>(&bj).map(|b| b.0).ok().as_ref() != Some(&bases.0) {
        ctx.violation("C18:roundtrip/bases/json", json!({"case":case}));
    }
    // argument shapes of the generators: absent count, zero, one, several - sizes as asked, JSON round trip
    for (nm, na, want) in [("None", None, 1usize), ("Some(0)", Some(0usize), 0), ("Some(1)", Some(1), 1), ("Some(7)", Some(7), 7)] {
        let c2 = format!("{}/commitment-key/n_attributes={}", case, nm);
        ctx.distinct(&format!("{}/commitment-key/n_attributes={}", C::NAME, nm));
        let Some(ck) = ctx.call("CommitmentPublicKey::generate(issuer N)", &c2, None, || Ok::<_, ()>(CL03CommitmentPublicKey::generate::<C>(Some(pk.N.clone()), na))).value else {
            ctx.violation("C18:commitment-key-generation-panicked", json!({"case":c2}));
            continue;
        };
        if ck.g_bases.len() != want || ck.N != pk.N {
            ctx.violation("C18:wrong-number-of-bases", json!({"case":c2,"asked":nm,"g":ck.g_bases.len()}));
        }
        if let Some(mode) = json_modes(&ck) {
            ctx.violation("C18:roundtrip/commitment-key/json", json!({"case":c2,"mode":mode}));
        }
        for g in ck.g_bases.iter().chain([&ck.h]) {
            if *g <= 1 || *g >= pk.N || Integer::from(g.gcd_ref(&pk.N)) != 1 {
                ctx.violation("C18:commitment-key-base-ill-formed", json!({"case":c2}));
            }
        }
    }
    for nb in [0usize, 1, 9] {
        let c2 = format!("{}/bases/n={}", case, nb);
        let Some(b) = ctx.call("Bases::generate", &c2, None, || Ok::<_, ()>(Bases::generate(&pk, nb))).value else {
            ctx.violation("C18:bases-generation-panicked", json!({"case":c2}));
            continue;
        };
        if b.0.len() != nb {
            ctx.violation("C18:wrong-number-of-bases", json!({"case":c2,"asked":nb,"bases":b.0.len()}));
        }
        let bj = serde_json::to_string(&b).unwrap();
        if serde_json::from_str::<Bases>(&bj).map(|x| x.0).ok().as_ref() != Some(&b.0) {
            ctx.violation("C18:roundtrip/bases/json", json!({"case":c2}));
        }
    }
    // signatures survive their encodings
    for k in 0..3 {
        let msgs = attributes::<C>(&mut r, n_attr, k);
        let sig = Signature::<CL03<C>>::sign_multiattr(&pk, &sk, &bases, &msgs);
        let b = ctx.call_plain("Signature::to_bytes", &case, || sig.to_bytes()).value.unwrap_or_default();
        match ctx.call("Signature::from_bytes", &case, None, || Ok::<_, ()>(Signature::<CL03<C>>::from_bytes(&b))).value {
            Some(s2) if s2 == sig && s2.verify_multiattr(&pk, &bases, &msgs) => {}
            _ => ctx.violation("C18:roundtrip/signature/bytes", json!({"case":case})),
        }
        if let Some(mode) = json_modes(&sig) {
            ctx.violation("C18:roundtrip/signature/json", json!({"case":case,"mode":mode}));
        }
        // the random exponent s of a signature has exactly ls bits, e exactly le bits (single- and multi-attribute signing)
        for (single, sg) in [(false, Some(sig.clone())), (true, if n_attr >= 1 { Some(Signature::<CL03<C>>::sign(&pk, &sk, &bases, &msgs[0])) } else { None })] {
            if let Some(sg) = sg {
                let j = serde_json::to_value(&sg).unwrap();
                for (p, v) in leaves(&j) {
                    let want = if p.ends_with("/s") { Some(C::ls) } else if p.ends_with("/e") { Some(C::le) } else { None };
                    if let Some(w) = want {
                        if v.significant_bits() != w {
                            ctx.violation("C18:signature-exponent-wrong-bit-length", json!({"case":case,"field":p,"bits":v.significant_bits(),"configured":w,"single_attribute_sign":single}));
                        }
                    }
                }
            }
        }
        ctx.count("signatures_round_tripped", 1);
    }
    RECORDS.lock().unwrap().push(rec);
    ctx.count("key_pairs_recorded", 1);
}

/// the random helpers called on several threads at once: pooled over all threads no large output may repeat
fn randoms_across_threads(ctx: &Ctx) {
    use zkryptium::utils::random::{random_number, random_prime, random_qr};
    let threads = 6usize;
    let per = ctx.t(150usize, 1000usize);
    let barrier = std::sync::Barrier::new(threads);
    let pool: std::sync::Mutex<std::collections::HashMap<(String, Integer), usize>> = std::sync::Mutex::new(Default::default());
    let modulus = (Integer::from(1) << 512u32) + 75u32;
    let scn = current_scenario();
    std::thread::scope(|sc| {
        for t in 0..threads {
            let (barrier, pool, scn, modulus) = (&barrier, &pool, &scn, &modulus);
            sc.spawn(move || {
                set_scenario(scn);
                barrier.wait();
                let mut mine: Vec<(String, Integer)> = vec![];
                let m = ctx.call("random helpers x N", "across-threads", None, || {
                    for k in 0..per {
                        mine.push(("random_bits(256)".into(), random_bits(256)));
                        mine.push(("rand_int(0,2^300)".into(), rand_int(Integer::from(0), Integer::from(1) << 300u32)));
                        mine.push(("random_number(2^512+75)".into(), random_number(modulus.clone())));
                        mine.push(("random_qr(2^512+75)".into(), random_qr(modulus)));
                        if k % 16 == 0 {
                            mine.push(("random_prime(128)".into(), random_prime(128)));
                        }
                    }
                    Ok::<_, ()>(())
                });
                if !m.outcome.is_ok() {
                    ctx.violation("C18:random-helper-panicked", json!({"outcome":m.outcome.short()}));
                }
                let mut p = pool.lock().unwrap();
                for e in mine {
                    if let Some(t0) = p.get(&e) {
                        ctx.violation("C18:random-output-repeated", json!({"function":e.0,"threads":[t0, &t],"same_thread":*t0 == t,"value":ihex(&e.1)}));
                    } else {
                        p.insert(e, t);
                    }
                }
            });
        }
    });
    ctx.count("random_outputs_pooled_across_threads", pool.lock().unwrap().len() as u64);
    ctx.distinct("randoms/across-threads");
}

fn randoms(ctx: &Ctx, idx: u64) {
    let mut r = ctx.rng("c18r", idx);
    let n_draws = ctx.t(1500, 10000);
    // sizes up to and beyond what the largest suite asks for (CL3072: ls + blinding = 4097 bits), and far beyond
    for &n in &[1u32, 2, 8, 64, 255, 256, 257, 1024, 1536, 2049, 3073, 4095, 4096, 4097, 8192, 16385] {
        let case = format!("random_bits/{}", n);
        ctx.distinct(&case);
        let mut seen = std::collections::HashSet::new();
        for _ in 0..n_draws / 8 {
            let Some(x) = ctx.call("random_bits", &case, None, || Ok::<_, ()>(random_bits(n))).value else {
                ctx.violation("C18:random_bits-panicked", json!({"n":n}));
                break;
            };
            if x.significant_bits() != n || !x.get_bit(n - 1) || x < 0 {
                ctx.violation("C18:random_bits-wrong-length", json!({"n":n,"got_bits":x.significant_bits()}));
            }
            seen.insert(x);
        }
        // not constant (for n >= 64 every draw must differ)
        if n >= 64 && seen.len() != n_draws / 8 {
            ctx.violation("C18:random_bits-repeats", json!({"n":n,"distinct":seen.len(),"draws":n_draws/8}));
        }
        if n == 8 && seen.len() < 30 {
            ctx.violation("C18:random_bits-degenerate", json!({"n":n,"distinct":seen.len()}));
        }
    }
    for k in 0..n_draws / 4 {
        let a = match k % 4 {
            0 => Integer::from(0),
            1 => -rand_int_bits(&mut r, 70),
            2 => rand_int_bits(&mut r, 300),
            _ => Integer::from(k as u64),
        };
        let w = match (k / 4) % 4 {
            0 => Integer::from(0),
            1 => Integer::from(1),
            2 => rand_int_bits(&mut r, 16),
            _ => rand_int_bits(&mut r, 600),
        };
        let b = Integer::from(&a + &w);
        let case = format!("rand_int/a{}/w{}", k % 4, (k / 4) % 4);
        ctx.distinct(&case);
        match ctx.call("rand_int", &case, None, || Ok::<_, ()>(rand_int(a.clone(), b.clone()))).value {
            Some(x) if x >= a && x <= b => {}
            Some(x) => ctx.violation("C18:rand_int-out-of-range", json!({"a":ihex(&a),"b":ihex(&b),"x":ihex(&x)})),
            None => ctx.violation("C18:rand_int-panicked", json!({"a":ihex(&a),"b":ihex(&b)})),
        }
    }
    // both end points are reachable for a tiny range
    let mut hits = [0u32; 3];
    for _ in 0..300 {
        let x = rand_int(Integer::from(5), Integer::from(7));
        if let Some(i) = x.to_u32().and_then(|v| v.checked_sub(5)) {
            if i < 3 {
                hits[i as usize] += 1;
            }
        }
    }
    if hits.iter().any(|&h| h == 0) {
        ctx.violation("C18:rand_int-endpoint-unreachable", json!({"hits":hits}));
    }
}

/// the random helpers on caller-supplied toy special-RSA moduli, where rare events become frequent:
/// every output of random_qr / Bases::generate must be a quadratic residue in (1, N) coprime to N
fn toy_moduli(ctx: &Ctx, idx: u64) {
    use zkryptium::utils::random::{random_number, random_prime, random_qr};
    let _ = idx;
    let draws = ctx.t(400, 4000);
    for (p, q) in [(5u32, 7u32), (7, 11), (11, 23), (23, 47), (47, 59), (59, 83), (83, 107), (227, 263)] {
        let n = Integer::from(p * q);
        let squares: std::collections::HashSet<u32> = (1..p * q).filter(|x| gcd_u32(*x, p * q) == 1).map(|x| (x * x) % (p * q)).collect();
        let case = format!("toy-modulus/{}", p * q);
        ctx.distinct(&case);
        let mut seen = std::collections::HashSet::new();
        for k in 0..draws {
            let x = if k % 2 == 0 {
                ctx.call("random_qr", &case, None, || Ok::<_, ()>(random_qr(&n))).value
            } else {
                let pk = CL03PublicKey::new(n.clone(), Integer::from(4), Integer::from(9));
                ctx.call("Bases::generate", &case, None, || Ok::<_, ()>(Bases::generate(&pk, 1))).value.map(|b| b.0[0].clone())
            };
            let Some(x) = x else {
                ctx.violation("C18:random_qr-panicked", json!({"N":p*q}));
                continue;
            };
            let xv = x.to_u32().unwrap_or(0);
            if !(xv > 1 && xv < p * q) || gcd_u32(xv, p * q) != 1 || !squares.contains(&xv) {
                ctx.violation("C18:random_qr-ill-formed", json!({"N":p*q,"value":xv,"why": if xv <= 1 {"not greater than 1"} else if gcd_u32(xv, p*q) != 1 {"not coprime"} else {"not a quadratic residue"}}));
            }
            seen.insert(xv);
        }
        if seen.len() < 2 {
            ctx.violation("C18:random_qr-degenerate", json!({"N":p*q,"distinct":seen.len()}));
        }
        for _ in 0..draws / 8 {
            if let Some(x) = ctx.call("random_number", &case, None, || Ok::<_, ()>(random_number(n.clone()))).value {
                if x < 0 || x >= n {
                    ctx.violation("C18:random_number-out-of-range", json!({"N":p*q,"value":x.to_string()}));
                }
            }
        }
    }
    // commitment keys over caller-supplied toy issuer moduli: h is a QR > 1 and every g_i lies in <h>
    for (p, q) in [(7u32, 11u32), (11, 23), (23, 47), (47, 59), (59, 83)] {
        let nn = p * q;
        let case = format!("toy-commitment-key/{}", nn);
        ctx.distinct(&case);
        for _ in 0..ctx.t(40, 400) {
            // run on a helper thread: a generator that never returns must not take the rest of the workload with
            // it (a stall is inconclusive, not a violation; the thread is left behind until the process exits)
            let m = ctx.call("CommitmentPublicKey::generate(toy N)", &case, None, || {
                let (tx, rx) = std::sync::mpsc::channel();
                std::thread::spawn(move || {
                    let r = std::panic::catch_unwind(|| CL03CommitmentPublicKey::generate::<zkryptium::cl03::ciphersuites::CL1024Sha256>(Some(Integer::from(nn)), Some(3)));
                    let _ = tx.send(r);
                });
                match rx.recv_timeout(std::time::Duration::from_secs(60)) {
                    Ok(Ok(ck)) => Ok(ck),
                    Ok(Err(_)) => Err("panicked"),
                    Err(_) => Err("stalled"),
                }
            });
            if matches!(&m.outcome, Outcome::Err(e) if e.contains("stalled")) {
                ctx.inconclusive(&format!("CommitmentPublicKey::generate(Some({nn}), 3) did not return within 60 s"));
                break;
            }
            let Some(ck) = m.value else {
                ctx.violation("C18:commitment-key-generation-panicked", json!({"N":nn}));
                continue;
            };
            let h = ck.h.to_u32().unwrap_or(0);
            let mut sub = std::collections::HashSet::new();
            let mut x = 1u64;
            loop {
                x = x * h as u64 % nn as u64;
                if !sub.insert(x as u32) {
                    break;
                }
            }
            for g in &ck.g_bases {
                let gv = g.to_u32().unwrap_or(0);
                if gv <= 1 || gv >= nn || gcd_u32(gv, nn) != 1 {
                    ctx.violation("C18:commitment-key-base-ill-formed", json!({"N":nn,"g":gv,"h":h}));
                } else if !sub.contains(&gv) {
                    ctx.violation("C18:commitment-key-base-outside-subgroup-of-h", json!({"N":nn,"g":gv,"h":h,"order_of_h":sub.len()}));
                }
            }
            ctx.count("toy_commitment_keys", 1);
        }
    }
    for bits in [2u32, 3, 8, 16, 64, 258] {
        let case = format!("random_prime/{}", bits);
        ctx.distinct(&case);
        for _ in 0..ctx.t(40, 300) {
            match ctx.call("random_prime", &case, None, || Ok::<_, ()>(random_prime(bits))).value {
                Some(x) => {
                    // next_prime of an exactly n-bit number: at least n bits, and prime (own trial division / Fermat + MR offline for big)
                    if x.significant_bits() < bits || (bits <= 16 && !is_prime_u32(x.to_u32().unwrap_or(0))) {
                        ctx.violation("C18:random_prime-ill-formed", json!({"bits":bits,"value":x.to_string()}));
                    }
                    if bits > 16 {
                        RECORDS_PRIMES.lock().unwrap().push(x.to_string_radix(16));
                    }
                }
                None => ctx.violation("C18:random_prime-panicked", json!({"bits":bits})),
            }
        }
    }
}

/// encodings of keys and signatures with values of special shape (tiny, leading zero bytes, all-ones, N-1)
fn special_codecs<C: Cs>(ctx: &Ctx) {
    let nbits = C::ln;
    let n = (Integer::from(1) << (nbits - 1)) + 12345u32;
    let specials: Vec<Integer> = vec![
        Integer::from(1), Integer::from(2), Integer::from(255), Integer::from(256), Integer::from(65535),
        (Integer::from(1) << 64) - 1u32, Integer::from(1) << 64, Integer::from(1) << (nbits - 9), (Integer::from(1) << (nbits - 8)) - 1u32, Integer::from(&n - 1u32),
    ];
    for (i, b) in specials.iter().enumerate() {
        for (j, c) in specials.iter().enumerate() {
            if (i + j) % 3 != 0 {
                continue;
            }
            let case = format!("{}/special-codec/pk/{}-{}", C::NAME, i, j);
            ctx.distinct(&case);
            let pk = CL03PublicKey::new(n.clone(), b.clone(), c.clone());
            let bytes = pk.to_bytes::<CL03<C>>();
            match ctx.call("PublicKey::from_bytes", &case, None, || Ok::<_, ()>(CL03PublicKey::from_bytes::<CL03<C>>(&bytes))).value {
                Some(p2) if p2 == pk => {}
                _ => ctx.violation("C18:roundtrip/public-key/bytes", json!({"case":case,"b_bits":b.significant_bits(),"c_bits":c.significant_bits()})),
            }
            if serde_json::from_str::<CL03PublicKey>(&serde_json::to_string(&pk).unwrap()).ok().as_ref() != Some(&pk) {
                ctx.violation("C18:roundtrip/public-key/json", json!({"case":case}));
            }
        }
    }
    let half = C::SECPARAM + 1;
    let ps: Vec<Integer> = vec![Integer::from(3), Integer::from(65537), (Integer::from(1) << (half - 9)) + 1u32, (Integer::from(1) << (half - 1)) + 5u32, (Integer::from(1) << half) - 1u32];
    for (i, p) in ps.iter().enumerate() {
        for (j, q) in ps.iter().enumerate() {
            let case = format!("{}/special-codec/sk/{}-{}", C::NAME, i, j);
            ctx.distinct(&case);
            let sk = CL03SecretKey::new(p.clone(), q.clone());
            let bytes = sk.to_bytes::<CL03<C>>();
            match ctx.call("SecretKey::from_bytes", &case, None, || Ok::<_, ()>(CL03SecretKey::from_bytes::<CL03<C>>(&bytes))).value {
                Some(s2) if s2 == sk => {}
                _ => ctx.violation("C18:roundtrip/secret-key/bytes", json!({"case":case,"p_bits":p.significant_bits(),"q_bits":q.significant_bits()})),
            }
        }
    }
    // signatures with components of special shape (built through serde, as a remote party could)
    let e_s: Vec<Integer> = vec![Integer::from(3), (Integer::from(1) << (C::le - 1)) + 1u32, (Integer::from(1) << (C::le - 9)) + 1u32, (Integer::from(1) << C::le) - 1u32];
    let s_s: Vec<Integer> = vec![Integer::from(0), Integer::from(1), Integer::from(1) << (C::ls - 9), (Integer::from(1) << C::ls) - 1u32];
    let v_s: Vec<Integer> = vec![Integer::from(0), Integer::from(1), Integer::from(255), Integer::from(1) << (nbits - 9), Integer::from(&n - 1u32)];
    for (i, e) in e_s.iter().enumerate() {
        for (j, s) in s_s.iter().enumerate() {
            for (k, v) in v_s.iter().enumerate() {
                let case = format!("{}/special-codec/sig/{}-{}-{}", C::NAME, i, j, k);
                ctx.distinct(&case);
                let js = json!({"CL03": {"e": serde_json::to_value(e).unwrap(), "s": serde_json::to_value(s).unwrap(), "v": serde_json::to_value(v).unwrap()}});
                let Ok(sig) = serde_json::from_value::<Signature<CL03<C>>>(js) else { continue };
                let bytes = ctx.call_plain("Signature::to_bytes", &case, || sig.to_bytes()).value.unwrap_or_default();
                match ctx.call("Signature::from_bytes", &case, None, || Ok::<_, ()>(Signature::<CL03<C>>::from_bytes(&bytes))).value {
                    Some(s2) if s2 == sig => {}
                    _ => ctx.violation("C18:roundtrip/signature/bytes", json!({"case":case,"e_bits":e.significant_bits(),"s_bits":s.significant_bits(),"v_bits":v.significant_bits()})),
                }
            }
        }
    }
    ctx.count("special_shape_objects_round_tripped", 1);
}

pub static RECORDS_PRIMES: Mutex<Vec<String>> = Mutex::new(Vec::new());

fn gcd_u32(a: u32, b: u32) -> u32 {
    if b == 0 { a } else { gcd_u32(b, a % b) }
}
fn is_prime_u32(n: u32) -> bool {
    n >= 2 && (2..=((n as f64).sqrt() as u32)).all(|d| n % d != 0)
}

pub fn scenarios(ctx: &Ctx) -> Vec<Scenario> {
    use zkryptium::cl03::ciphersuites::{CL1024Sha256, CL2048Sha256, CL3072Sha256};
    let mut v = Vec::new();
    if !ctx.quick() {
        v.push(scenario("CL3072/key", |c| keys::<CL3072Sha256>(c, 300, false)));
        for i in 0..2u64 {
            v.push(scenario("CL2048/key", move |c| keys::<CL2048Sha256>(c, 200 + i, false)));
        }
    }
    for i in 0..ctx.t(3u64, 24u64) {
        v.push(scenario("CL1024/key", move |c| keys::<CL1024Sha256>(c, i, i < ctx_own(c))));
    }
    v.push(scenario("randoms", |c| randoms(c, 0)));
    v.push(scenario("toy-moduli", |c| toy_moduli(c, 0)));
    v.push(scenario("randoms-across-threads", |c| randoms_across_threads(c)));
    v.push(scenario("special-codecs/CL1024", |c| special_codecs::<CL1024Sha256>(c)));
    if !ctx.quick() {
        v.push(scenario("special-codecs/CL2048", |c| special_codecs::<CL2048Sha256>(c)));
    }
    v
}

fn ctx_own(c: &Ctx) -> u64 {
    c.t(1, 4)
}

pub fn finish(ctx: &Ctx) {
    let recs = RECORDS.lock().unwrap();
    ctx.set_extra("c18_records", json!(*recs));
    ctx.set_extra("c18_primes", json!(*RECORDS_PRIMES.lock().unwrap()));
}

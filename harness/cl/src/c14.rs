use crate::common::*;
pub fn scenarios(_ctx: &Ctx) -> Vec<Scenario> { vec![] }

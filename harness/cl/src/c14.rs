//! C14 — CL03 blind issuance works for every hidden-attribute set and is gated.

use crate::clutil::*;
use crate::common::*;
use rug::Integer;
use serde_json::{json, Value};
use zkryptium::cl03::commitment::CL03Commitment;
use zkryptium::cl03::keys::CL03CommitmentPublicKey;
use zkryptium::schemes::algorithms::CL03;
use zkryptium::schemes::generics::{BlindSignature, Commitment, ZKPoK};
use zkryptium::utils::message::cl03_message::CL03Message;

type Zk<C> = ZKPoK<CL03<C>>;

struct Run<'a, C: Cs> {
    st: &'a Setup<C>,
    n: usize,
    u: Vec<usize>,
    msgs: Vec<CL03Message>,
    commitment: Commitment<CL03<C>>,
    trusted: Option<(CL03Commitment, &'a CL03CommitmentPublicKey)>,
    zk: Zk<C>,
    order: usize,
}

/// what the issuer holds after receiving a commitment over the wire: the value, not the opening
fn wire(c: &CL03Commitment) -> CL03Commitment {
    CL03Commitment { value: c.value.clone(), randomness: Integer::from(0) }
}

impl<'a, C: Cs> Run<'a, C> {
    fn verify(&self, zk: &Zk<C>, c: &CL03Commitment, u: &[usize]) -> bool {
        let bases = self.st.bases_n(self.n);
        zk.verify_proof(c, self.trusted.as_ref().map(|t| &t.0), self.st.pk(), &bases, self.trusted.as_ref().map(|t| t.1), u)
    }
    /// the issuer's call: commitments as received (values only), proof after its JSON transport
    fn verify_as_issuer(&self, zk: &Zk<C>, c: &CL03Commitment, u: &[usize]) -> bool {
        let bases = self.st.bases_n(self.n);
        let zk2: Zk<C> = serde_json::from_str(&serde_json::to_string(zk).unwrap()).unwrap();
        let t = self.trusted.as_ref().map(|t| wire(&t.0));
        zk2.verify_proof(&wire(c), t.as_ref(), self.st.pk(), &bases, self.trusted.as_ref().map(|t| t.1), u)
    }
    fn blind_sign_as_issuer(&self, zk: &Zk<C>, c: &CL03Commitment, u: &[usize]) -> BlindSignature<CL03<C>> {
        let bases = self.st.bases_n(self.n);
        let (ri, rm) = self.revealed();
        let zk2: Zk<C> = serde_json::from_str(&serde_json::to_string(zk).unwrap()).unwrap();
        let t = self.trusted.as_ref().map(|t| wire(&t.0));
        BlindSignature::<CL03<C>>::blind_sign(
            self.st.pk(), self.st.sk(), &bases, &zk2, Some(&rm), &wire(c),
            t.as_ref(), self.trusted.as_ref().map(|t| t.1), u, Some(&ri),
        )
    }
    /// revealed (index, attribute) pairs; `order` permutes the pairs (the API takes two parallel lists, the
    /// order in which a caller lists the pairs must not matter)
    fn revealed(&self) -> (Vec<usize>, Vec<CL03Message>) {
        let mut idx: Vec<usize> = (0..self.n).filter(|i| !self.u.contains(i)).collect();
        match self.order {
            1 => idx.reverse(),
            2 => {
                let k = 1.min(idx.len());
                idx.rotate_left(k)
            }
            _ => {}
        }
        let m = idx.iter().map(|&i| self.msgs[i].clone()).collect();
        (idx, m)
    }
    fn blind_sign(&self, zk: &Zk<C>, c: &CL03Commitment, u: &[usize]) -> BlindSignature<CL03<C>> {
        let bases = self.st.bases_n(self.n);
        let (ri, rm) = self.revealed();
        BlindSignature::<CL03<C>>::blind_sign(
            self.st.pk(), self.st.sk(), &bases, zk, Some(&rm), c,
            self.trusted.as_ref().map(|t| &t.0), self.trusted.as_ref().map(|t| t.1), u, Some(&ri),
        )
    }
}

fn issuance<C: Cs>(ctx: &Ctx, st: &Setup<C>, own: Option<&CL03CommitmentPublicKey>, r: &mut impl rand::RngCore, n: usize, u: Vec<usize>, tamper: bool) {
    let bases = st.bases_n(n);
    let mix = rand_range(r, 4);
    let mut msgs = attributes::<C>(r, n, mix);
    // boundary values at hidden positions: 0, 1 and 2^lm - 1 are legal attribute values
    let boundary = rand_range(r, 6);
    if boundary < 3 && !u.is_empty() {
        let i = u[rand_range(r, u.len())];
        msgs[i] = attribute::<C>(r, boundary);
        ctx.count(&format!("hidden_boundary_value_{}", ["0", "1", "max"][boundary]), 1);
    }
    let case = format!("{}/n{}/U={:?}/{}", C::NAME, n, u, if own.is_some() { "trusted" } else { "plain" });
    ctx.distinct(&case);
    let commitment = ctx.call("commit_with_pk", &case, None, || Ok::<_, ()>(Commitment::<CL03<C>>::commit_with_pk(&msgs, st.pk(), &bases, Some(&u))));
    let Some(commitment) = commitment.value else {
        ctx.violation("C14:commit-panicked", json!({"case":case,"outcome":commitment.outcome.short(),"hidden_values":u.iter().map(|&i| ihex(&msgs[i].value)).collect::<Vec<_>>()}));
        return;
    };
    let trusted = own.map(|ck| {
        let ckn = ck;
        (Commitment::<CL03<C>>::commit_with_commitment_pk(&msgs, ckn, Some(&u)).cl03Commitment().clone(), ckn)
    });
    let zk = ctx.call("ZKPoK::generate_proof", &case, None, || {
        Ok::<_, ()>(Zk::<C>::generate_proof(&msgs, commitment.cl03Commitment(), trusted.as_ref().map(|t| &t.0), st.pk(), &bases, trusted.as_ref().map(|t| t.1), &u))
    });
    let Some(zk) = zk.value else {
        ctx.violation("C14:generate_proof-panicked", json!({"case":case,"outcome":zk.outcome.short()}));
        return;
    };
    let order = rand_range(r, 3);
    ctx.count(&format!("revealed_pairs_order_{}", ["ascending", "descending", "rotated"][order]), 1);
    let run = Run { st, n, u: u.clone(), msgs: msgs.clone(), commitment, trusted, zk, order };
    let c = run.commitment.cl03Commitment().clone();
    // ---------------- positive
    let ok = ctx.call("ZKPoK::verify_proof", &case, None, || Ok::<_, ()>(run.verify(&run.zk, &c, &u)));
    if ok.value != Some(true) {
        ctx.violation("C14:honest-proof-rejected", json!({"case":case,"hidden":u,"n":n,"outcome":format!("{:?}/{}", ok.value, ok.outcome.short())}));
        return;
    }
    if let Some(mode) = json_modes(&run.zk) {
        ctx.violation("C14:json-roundtrip", json!({"case":case,"mode":mode}));
    }
    // the same request as the issuer really sees it: value-only commitments, proof transported as JSON
    let ok2 = ctx.call("ZKPoK::verify_proof", &case, None, || Ok::<_, ()>(run.verify_as_issuer(&run.zk, &c, &u)));
    if ok2.value != Some(true) {
        ctx.violation("C14:honest-proof-rejected-by-issuer-view", json!({"case":case,"hidden":u,"n":n,"outcome":format!("{:?}/{}", ok2.value, ok2.outcome.short())}));
    }
    let bs2 = ctx.call("blind_sign", &case, None, || Ok::<_, ()>(run.blind_sign_as_issuer(&run.zk, &c, &u)));
    match bs2.value {
        Some(b2) => {
            let s2 = ctx.call("unblind_sign", &case, None, || Ok::<_, ()>(b2.unblind_sign(&run.commitment))).value;
            if !matches!(&s2, Some(s) if s.verify_multiattr(st.pk(), &bases, &msgs)) {
                ctx.violation("C14:unblinded-signature-rejected", json!({"case":case,"issuer_view":true}));
            }
        }
        None => ctx.violation("C14:blind_sign-refused-honest-request", json!({"case":case,"issuer_view":true,"outcome":bs2.outcome.short()})),
    }
    let bs = ctx.call("blind_sign", &case, None, || Ok::<_, ()>(run.blind_sign(&run.zk, &c, &u)));
    let Some(bsig) = bs.value else {
        ctx.violation("C14:blind_sign-refused-honest-request", json!({"case":case,"outcome":bs.outcome.short()}));
        return;
    };
    let sig = ctx.call("unblind_sign", &case, None, || Ok::<_, ()>(bsig.unblind_sign(&run.commitment))).value;
    match &sig {
        Some(s) if s.verify_multiattr(st.pk(), &bases, &msgs) => {}
        _ => ctx.violation("C14:unblinded-signature-rejected", json!({"case":case})),
    }
    // re-issuing after changing a revealed attribute
    let (ri, rm) = run.revealed();
    if !ri.is_empty() {
        let k = rand_range(r, ri.len());
        let mut rm2 = rm.clone();
        rm2[k] = attribute::<C>(r, 4);
        if rm2[k].value != rm[k].value {
            let up = ctx.call("update_signature", &case, None, || Ok::<_, ()>(bsig.update_signature(Some(&rm2), &c, st.sk(), st.pk(), &bases, Some(&ri))));
            match up.value {
                Some(b2) => {
                    let s2 = b2.unblind_sign(&run.commitment);
                    let mut m2 = msgs.clone();
                    m2[ri[k]] = rm2[k].clone();
                    if !s2.verify_multiattr(st.pk(), &bases, &m2) {
                        ctx.violation("C14:updated-signature-rejected", json!({"case":case}));
                    }
                    if s2.verify_multiattr(st.pk(), &bases, &msgs) {
                        ctx.violation("C14:updated-signature-valid-for-old-vector", json!({"case":case}));
                    }
                    if let Some(s) = &sig {
                        if s.verify_multiattr(st.pk(), &bases, &m2) {
                            ctx.violation("C14:old-signature-valid-for-updated-vector", json!({"case":case}));
                        }
                    }
                }
                None => ctx.violation("C14:update_signature-panicked", json!({"case":case})),
            }
        }
    }
    // ---------------- negative: the issuer does not sign on mismatches
    let refuse = |kind: &str, zk: &Zk<C>, cc: &CL03Commitment, uu: &[usize], also_sign: bool| {
        let full = format!("{}/{}", case, kind);
        ctx.distinct(&full);
        let v = ctx.call("ZKPoK::verify_proof", &full, None, || Ok::<_, ()>(run.verify(zk, cc, uu)));
        if v.value == Some(true) {
            ctx.violation(&format!("C14:mismatch-accepted/{}", kind.split('#').next().unwrap()), json!({"case":full}));
        }
        if v.outcome.is_panic() {
            ctx.count("verify_proof_panics(counted as not verifying)", 1);
        }
        if also_sign {
            let b = ctx.call("blind_sign", &full, None, || Ok::<_, ()>(run.blind_sign(zk, cc, uu)));
            if b.value.is_some() {
                ctx.violation(&format!("C14:issuer-signed-on-mismatch/{}", kind.split('#').next().unwrap()), json!({"case":full}));
            }
        }
    };
    // commitment to other attributes
    let mut m2 = msgs.clone();
    m2[u[0]].value = Integer::from(&m2[u[0]].value ^ 1u32);
    match ctx.call("commit_with_pk", &case, None, || Ok::<_, ()>(Commitment::<CL03<C>>::commit_with_pk(&m2, st.pk(), &bases, Some(&u)))).value {
        Some(c2) => refuse("commitment-to-other-attributes", &run.zk, c2.cl03Commitment(), &u, true),
        None => ctx.violation("C14:commit-panicked", json!({"case":case,"hidden_values":u.iter().map(|&i| ihex(&m2[i].value)).collect::<Vec<_>>()})),
    }
    let mut c3 = c.clone();
    c3.value = Integer::from(&c3.value + 1u32);
    refuse("commitment-value+1", &run.zk, &c3, &u, true);
    // other hidden sets
    let others: Vec<Vec<usize>> = if n <= 5 {
        subsets_nonempty(n)
    } else {
        // large attribute counts: neighbours of the hidden set instead of all 2^n subsets
        let mut v: Vec<Vec<usize>> = vec![vec![0], vec![n - 1]];
        for k in 0..u.len() {
            for delta in [1usize, 64] {
                let mut x = u.clone();
                x[k] = (x[k] + delta) % n;
                x.sort();
                x.dedup();
                v.push(x);
            }
        }
        v.push(u[..u.len() - 1].to_vec());
        v.retain(|x| !x.is_empty());
        v
    };
    let mut u_sorted = u.clone();
    u_sorted.sort();
    for u2 in others {
        if u2 != u_sorted {
            refuse(&format!("other-hidden-set#{:?}", u2), &run.zk, &c, &u2, u2.len() == u.len());
        }
    }
    // the issuer believes that nothing is hidden (empty list): the commitment then must not carry anything unseen
    refuse("other-hidden-set#empty", &run.zk, &c, &[], true);
    // other bases / pk
    {
        let full = format!("{}/other-bases", case);
        ctx.distinct(&full);
        let mut b2 = bases.clone();
        b2.0.rotate_left(1);
        if n == 1 {
            b2 = zkryptium::cl03::bases::Bases::generate(st.pk(), 1);
        }
        let v = ctx.call("ZKPoK::verify_proof", &full, None, || Ok::<_, ()>(run.zk.verify_proof(&c, run.trusted.as_ref().map(|t| &t.0), st.pk(), &b2, run.trusted.as_ref().map(|t| t.1), &u)));
        if v.value == Some(true) {
            ctx.violation("C14:mismatch-accepted/other-bases", json!({"case":full}));
        }
        let mut pk2 = st.pk().clone();
        std::mem::swap(&mut pk2.b, &mut pk2.c);
        let full = format!("{}/other-pk", case);
        ctx.distinct(&full);
        let v = ctx.call("ZKPoK::verify_proof", &full, None, || Ok::<_, ()>(run.zk.verify_proof(&c, run.trusted.as_ref().map(|t| &t.0), &pk2, &bases, run.trusted.as_ref().map(|t| t.1), &u)));
        if v.value == Some(true) {
            ctx.violation("C14:mismatch-accepted/other-pk", json!({"case":full}));
        }
    }
    // other trusted commitment
    if let Some((tc, ck)) = &run.trusted {
        let other_t = Commitment::<CL03<C>>::commit_with_commitment_pk(&m2, ck, Some(&u)).cl03Commitment().clone();
        let full = format!("{}/other-trusted-commitment", case);
        ctx.distinct(&full);
        let v = ctx.call("ZKPoK::verify_proof", &full, None, || Ok::<_, ()>(run.zk.verify_proof(&c, Some(&other_t), st.pk(), &bases, Some(ck), &u)));
        if v.value == Some(true) {
            ctx.violation("C14:mismatch-accepted/other-trusted-commitment", json!({"case":full}));
        }
        let _ = tc;
    }
    // a proof that is not tied to the trusted commitment at all, presented to an issuer that holds one
    if let Some((tc, ck)) = &run.trusted {
        let untied = ctx.call("ZKPoK::generate_proof", &case, None, || {
            Ok::<_, ()>(Zk::<C>::generate_proof(&msgs, &c, None, st.pk(), &bases, None, &u))
        });
        if let Some(untied) = untied.value {
            refuse("proof-without-trusted-part", &untied, &c, &u, true);
        }
        // the same with the trusted sub-proof stripped from an honest proof
        let mut j = serde_json::to_value(&run.zk).unwrap();
        if let Some(o) = j.get_mut("CL03").and_then(|x| x.as_object_mut()) {
            o.insert("proof_C_Ctrusted".into(), Value::Null);
        }
        if let Ok(stripped) = serde_json::from_value::<Zk<C>>(j) {
            refuse("trusted-sub-proof-stripped", &stripped, &c, &u, true);
        }
        let _ = (tc, ck);
    }
    // field-wise edits of the serialized ZKPoK
    if tamper {
        let j = serde_json::to_value(&run.zk).unwrap();
        let variants = tampered_variants_mod(&j, r, ctx.t(60, 400), Some(&st.pk().N));
        ctx.count("zkpok_leaves", leaves(&j).len() as u64);
        ctx.count("zkpok_tampered_variants", variants.len() as u64);
        let sign_every = ctx.t(40, 10);
        let items: Vec<(usize, &(String, String, Value))> = variants.iter().enumerate().collect();
        par_for_each(&items, 8, |(k, (kind, path, j2))| {
            let cls = path_class(path);
            let full = format!("{}/tamper/{}/{}", case, kind, path);
            ctx.distinct(&format!("{}/tamper/{}/{}", C::NAME, kind, cls));
            let Ok(zk2) = serde_json::from_value::<Zk<C>>(j2.clone()) else {
                ctx.count("tampered_json_not_deserializable", 1);
                return;
            };
            let v = ctx.call("ZKPoK::verify_proof", &full, None, || Ok::<_, ()>(run.verify(&zk2, &c, &u)));
            if v.value == Some(true) {
                ctx.violation(&format!("C14:tampered-proof-accepted/{}", cls), json!({"case":full,"edit":kind,"leaf":path}));
                if k % sign_every == 0 {
                    ctx.count("blind_sign_on_tampered_proofs", 1);
                }
            } else if k % sign_every == 0 {
                let b = ctx.call("blind_sign", &full, None, || Ok::<_, ()>(run.blind_sign(&zk2, &c, &u)));
                ctx.count("blind_sign_on_tampered_proofs", 1);
                if b.value.is_some() {
                    ctx.violation(&format!("C14:issuer-signed-tampered-proof/{}", cls), json!({"case":full}));
                }
            }
        });
    }
    ctx.sample(json!({"case":case,"hidden":u,"n":n,"trusted_commitment":own.is_some(),"verify_proof":true,"unblinded_signature_verifies":true,"tampered":tamper}));
}

fn run<C: Cs>(ctx: &Ctx, idx: u64, nmax: usize, with_trusted: bool) {
    let mut r = ctx.rng("c14", idx);
    let Some(st) = Setup::<C>::new(ctx, nmax) else {
        ctx.inconclusive("C14: key generation panicked (C18's business)");
        return;
    };
    let own = if with_trusted {
        ctx.call("CommitmentPublicKey::generate(own N)", "setup", None, || Ok::<_, ()>(CL03CommitmentPublicKey::generate::<C>(None, Some(nmax)))).value
    } else {
        None
    };
    // a credential with many attributes and hidden positions deep in the vector (once per run)
    if !with_trusted {
        let big = 70;
        if let Some(stb) = Setup::<C>::new(ctx, big) {
            issuance::<C>(ctx, &stb, None, &mut r, big, vec![5, 64], false);
            issuance::<C>(ctx, &stb, None, &mut r, 33, vec![32], false);
            ctx.count("large_attribute_count_issuances", 2);
        }
    }
    for n in 1..=nmax {
        for (k, u) in subsets_nonempty(n).into_iter().enumerate() {
            // tamper every field of a few selected proofs
            let tamper = (n == 2 && u == vec![1]) || (n == 3 && u == vec![0, 2]) || (!ctx.quick() && k % 5 == 0);
            issuance::<C>(ctx, &st, None, &mut r, n, u.clone(), tamper && !with_trusted);
            // the same hidden set listed in another order (descending; rotated by one): the listing order is the caller's choice
            if u.len() >= 2 {
                let mut listings = vec![u.iter().rev().copied().collect::<Vec<usize>>()];
                if u.len() >= 3 {
                    let mut x = u.clone();
                    x.rotate_left(1);
                    listings.push(x);
                }
                for ul in listings {
                    ctx.count("hidden_set_listed_out_of_order", 1);
                    issuance::<C>(ctx, &st, own.as_ref().filter(|_| rand_range(&mut r, 2) == 0), &mut r, n, ul, false);
                }
            }
            if let Some(ck) = &own {
                // the trusted party's key needs bases for the hidden positions only: exactly n, roomy (nmax), or just enough
                let covering = u.iter().max().unwrap() + 1;
                let mut sizes = vec![[n, nmax][rand_range(&mut r, 2)]];
                if covering < n {
                    sizes.push(covering);
                }
                for size in sizes {
                    ctx.count(&format!("trusted_key_bases_{}", if size == n { "exactly_n" } else if size < n { "fewer_than_n" } else { "more_than_n" }), 1);
                    let ckn = CL03CommitmentPublicKey { N: ck.N.clone(), h: ck.h.clone(), g_bases: ck.g_bases[..size].to_vec() };
                    issuance::<C>(ctx, &st, Some(&ckn), &mut r, n, u.clone(), tamper && size >= n);
                }
            }
        }
    }
}

/// volume: many honest issuance proofs of one small shape, verified as the issuer sees them
fn volume<C: Cs>(ctx: &Ctx, idx: u64, count: usize) {
    let mut r = ctx.rng("c14v", idx);
    let n = 2usize;
    let Some(st) = Setup::<C>::new(ctx, n) else {
        ctx.inconclusive("C14: key generation panicked (C18's business)");
        return;
    };
    let bases = st.bases_n(n);
    let msgs = attributes::<C>(&mut r, n, 0);
    let u = vec![0usize, 1];
    let items: Vec<usize> = (0..count).collect();
    let case = format!("{}/volume/n2/U=[0,1]", C::NAME);
    ctx.distinct(&case);
    par_for_each(&items, 16, |_k| {
        let com = Commitment::<CL03<C>>::commit_with_pk(&msgs, st.pk(), &bases, Some(&u));
        let Some(zk) = ctx.call("ZKPoK::generate_proof", &case, None, || Ok::<_, ()>(Zk::<C>::generate_proof(&msgs, com.cl03Commitment(), None, st.pk(), &bases, None, &u))).value else {
            ctx.violation("C14:generate_proof-panicked", json!({"case":case}));
            return;
        };
        let v = ctx.call("ZKPoK::verify_proof", &case, None, || Ok::<_, ()>(zk.verify_proof(&wire(com.cl03Commitment()), None, st.pk(), &bases, None, &u)));
        if v.value != Some(true) {
            let j = serde_json::to_value(&zk).unwrap();
            let ch: Vec<u32> = leaves(&j).iter().filter(|(p, _)| p.ends_with("/challenge") || p.ends_with("/C")).map(|(_, v)| v.significant_bits()).collect();
            ctx.violation("C14:honest-proof-rejected", json!({"case":case,"outcome":format!("{:?}/{}", v.value, v.outcome.short()),"challenge_bit_lengths":ch}));
        }
        ctx.count("volume_proofs_verified", 1);
    });
}

pub fn scenarios(ctx: &Ctx) -> Vec<Scenario> {
    use zkryptium::cl03::ciphersuites::{CL1024Sha256, CL2048Sha256};
    let mut v = Vec::new();
    let nmax = ctx.t(3usize, 5usize);
    if !ctx.quick() {
        v.push(scenario("CL2048/plain", move |c| run::<CL2048Sha256>(c, 200, 3, false)));
    }
    v.push(scenario("CL1024/trusted", move |c| run::<CL1024Sha256>(c, 1, nmax, true)));
    v.push(scenario("CL1024/plain", move |c| run::<CL1024Sha256>(c, 2, nmax, false)));
    let count = ctx.t(200usize, 2000usize);
    v.push(scenario("CL1024/volume", move |c| volume::<CL1024Sha256>(c, 810, count)));
    if !ctx.quick() {
        v.push(scenario("CL1024/plain-2", move |c| run::<CL1024Sha256>(c, 3, 4, false)));
        v.push(scenario("CL1024/trusted-2", move |c| run::<CL1024Sha256>(c, 4, 4, true)));
    }
    v
}

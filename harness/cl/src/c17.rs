//! C17 — CL03 proofs do not hand the verifier the openings they are meant to hide.
//! Attacker-side recomputation monitor: plays the recipient of the serialized proof.

use crate::bundles::*;
use crate::clutil::*;
use crate::common::*;
use rug::Integer;
use serde_json::json;
use std::collections::HashMap;

fn attack(ctx: &Ctx, b: &Bundle) {
    ctx.distinct(&b.label);
    let n = &b.n_mod;
    let ls = leaves(&b.json);
    ctx.count("integer_leaves_examined", ls.len() as u64);
    // candidate commitment values: every leaf that is a residue mod N, plus the public inputs
    let mut values: HashMap<Integer, String> = HashMap::new();
    for (p, v) in &ls {
        if v > &Integer::from(1) && v < n {
            values.entry(v.clone()).or_insert_with(|| path_class(p));
        }
    }
    for (nm, v) in &b.public_values {
        values.entry(v.clone()).or_insert_with(|| format!("public:{nm}"));
    }
    // rho ranges over ALL integer leaves (not only the fields called `randomness`)
    let mut rhos: HashMap<Integer, String> = HashMap::new();
    for (p, v) in &ls {
        if *v != 0 {
            rhos.entry(v.clone()).or_insert_with(|| path_class(p));
        }
    }
    ctx.count("candidate_values", values.len() as u64);
    ctx.count("candidate_randomness_leaves", rhos.len() as u64);
    // secrets and a decoy per secret
    let mut found: Vec<(String, String, String, String)> = vec![]; // (value field, rho field, base pair, secret kind)
    let mut h_pows: HashMap<(usize, Integer), Integer> = HashMap::new();
    let hs: Vec<Integer> = {
        let mut v: Vec<Integer> = vec![];
        for (_, _, h) in &b.base_pairs {
            if !v.contains(h) {
                v.push(h.clone());
            }
        }
        v
    };
    for (hi, h) in hs.iter().enumerate() {
        for rho in rhos.keys() {
            h_pows.insert((hi, rho.clone()), powm(h, rho, n));
        }
    }
    ctx.count("modular_exponentiations", (hs.len() * rhos.len()) as u64);
    let test = |secret_kind: &str, x: &Integer, decoy: bool, found: &mut Vec<(String, String, String, String)>| -> bool {
        let mut hit = false;
        for (bl, g, h) in &b.base_pairs {
            let hi = hs.iter().position(|z| z == h).unwrap();
            let gx = powm(g, x, n);
            for (rho, rf) in &rhos {
                let cand = mulm(&gx, &h_pows[&(hi, rho.clone())], n);
                if let Some(vf) = values.get(&cand) {
                    hit = true;
                    if !decoy {
                        found.push((vf.clone(), rf.clone(), bl.clone(), secret_kind.to_string()));
                    }
                }
            }
        }
        hit
    };
    for (kind, x) in &b.secrets {
        if kind == "signature-v" {
            continue;
        }
        let truth = test(kind, x, false, &mut found);
        let decoy = test(kind, &Integer::from(x ^ Integer::from(0x5a5a5au32)), true, &mut found);
        ctx.count("dictionary_attacks_run", 1);
        if truth && !decoy {
            ctx.count("dictionary_attacks_successful", 1);
        }
    }
    // v: value * g^(-randomness) == v  (Cv = v * g_0^w)
    if let Some((_, v)) = b.secrets.iter().find(|(k, _)| k == "signature-v") {
        // value * g^(-rho) == v  <=>  value == v * g^rho: one exponentiation and one lookup per (g, rho).
        // Only the first g of each family can blind v in this library; for small proofs all bases are tried, for
        // proofs with very many fields the first base of each family and the bases of the hidden positions.
        let np = b.base_pairs.len();
        let per_family = if b.kind == "spok" { np / 2 } else { np };
        let few = np * rhos.len() <= 6000;
        for (k, (bl, g, _)) in b.base_pairs.iter().enumerate() {
            let pos = if per_family > 0 { k % per_family } else { 0 };
            if !few && pos != 0 && !b.hidden.iter().take(6).any(|(i, _)| *i == pos) {
                continue;
            }
            for (rho, rf) in &rhos {
                if !few && rho.significant_bits() > n.significant_bits() + 700 {
                    continue;
                }
                let target = mulm(v, &powm(g, rho, n), n);
                if let Some(vf) = values.get(&target) {
                    found.push((vf.clone(), rf.clone(), bl.clone(), "signature-v".into()));
                }
                ctx.count("modular_exponentiations", 1);
            }
        }
    }
    // whole hidden vector confirmed from a multi-base commitment: value == prod g_i^{m_i} * h^rho
    if b.hidden.len() >= 2 || b.kind == "spok" {
        let families: Vec<(&str, Vec<&(String, Integer, Integer)>)> = vec![
            ("g", b.base_pairs.iter().filter(|x| x.0.starts_with("(g_")).collect()),
            ("a", b.base_pairs.iter().filter(|x| x.0.starts_with("(a_")).collect()),
        ];
        for (_fam, pairs) in families {
            if pairs.is_empty() {
                continue;
            }
            let mut prod = Integer::from(1);
            for (i, m) in &b.hidden {
                prod = mulm(&prod, &powm(&pairs[*i].1, m, n), n);
            }
            let hi = hs.iter().position(|z| z == &pairs[0].2).unwrap();
            for (rho, rf) in &rhos {
                let cand = mulm(&prod, &h_pows[&(hi, rho.clone())], n);
                if let Some(vf) = values.get(&cand) {
                    if b.hidden.len() >= 2 {
                        found.push((vf.clone(), rf.clone(), "multi-base".into(), "hidden-attribute-vector".into()));
                    }
                }
            }
        }
    }
    // complete openings carried inside the proof: value == g^{leaf1} * h^{leaf2} for two leaves of the proof
    // (bounded: base pairs of hidden positions first; proofs with very many fields stop after a budget and say so)
    let mut order: Vec<&(String, Integer, Integer)> = vec![];
    let np = b.base_pairs.len();
    let per_family = if b.kind == "spok" { np / 2 } else { np };
    for (k, bp) in b.base_pairs.iter().enumerate() {
        if b.hidden.iter().any(|(i, _)| per_family > 0 && k % per_family == *i) {
            order.push(bp);
        }
    }
    for (k, bp) in b.base_pairs.iter().enumerate() {
        if !b.hidden.iter().any(|(i, _)| per_family > 0 && k % per_family == *i) {
            order.push(bp);
        }
    }
    let mut budget: i64 = if rhos.len() > 600 { 6_000 } else { 20_000 };
    for (bl, g, h) in order.into_iter().map(|x| (&x.0, &x.1, &x.2)) {
        let hi = hs.iter().position(|z| z == h).unwrap();
        if budget <= 0 {
            ctx.count("complete_opening_searches_cut_by_budget", 1);
            break;
        }
        for (x, xf) in &rhos {
            if x.significant_bits() > 4200 {
                continue;
            }
            budget -= 1;
            let gx = powm(g, x, n);
            ctx.count("modular_exponentiations", 1);
            for (rho, rf) in &rhos {
                let cand = mulm(&gx, &h_pows[&(hi, rho.clone())], n);
                if let Some(vf) = values.get(&cand) {
                    found.push((vf.clone(), format!("{}+{}", xf, rf), bl.clone(), "opening-entirely-inside-proof".into()));
                }
            }
        }
    }
    // direct recomputation: a proof field that is an exact multiple k * x of a secret for a factor k the
    // recipient knows (challenge, challenge +- 1, another field): x = field / k
    {
        let explicit: Vec<(String, Integer)> = ls.iter().filter(|(p, _)| p.ends_with("/challenge") || p.ends_with("/C")).map(|(p, v)| (path_class(p), v.clone())).collect();
        for (p, sv) in &ls {
            if *sv == 0 {
                continue;
            }
            for (cn, c) in &explicit {
                for (dk, k) in [("c", c.clone()), ("c+1", Integer::from(c + 1u32)), ("c-1", Integer::from(c - 1u32))] {
                    if k <= 1 || !sv.is_divisible(&k) {
                        continue;
                    }
                    let q = Integer::from(sv / &k);
                    for (kind, x) in &b.secrets {
                        if &q == x && x.significant_bits() > 16 {
                            found.push((path_class(p), format!("{}[{}]", dk, cn), "exact-division".into(), kind.clone()));
                        }
                    }
                }
            }
            ctx.count("exact_division_tests", explicit.len() as u64 * 3);
        }
    }
    {
        let explicit: Vec<(String, Integer)> = ls.iter().filter(|(p, _)| p.ends_with("/challenge") || p.ends_with("/C")).map(|(p, v)| (format!("explicit:{}", path_class(p)), v.clone())).collect();
        // the multi-secret PoK challenge is recomputable from public data: H(a_i.. || b || C || t)
        let mut chs = explicit;
        if b.kind == "zkpok" {
            use sha2::{Digest, Sha256};
            if let Some((_, t)) = ls.iter().find(|(p, _)| p.ends_with("/proof_commited_msgs/t")) {
                for (_, cval) in &b.public_values {
                    let mut sstr = String::new();
                    for (i, _) in &b.hidden {
                        sstr += &b.base_pairs[*i].1.to_string();
                    }
                    sstr += &b.base_pairs[0].2.to_string();
                    sstr += &cval.to_string();
                    sstr += &t.to_string();
                    chs.push(("nispMultiSecrets:".into(), Integer::from_digits(Sha256::digest(sstr.as_bytes()).as_slice(), rug::integer::Order::MsfBe)));
                }
            }
        }
        for (field, div, what) in sibling_difference_attack(b, &chs) {
            found.push((field, div, "linear-combination".into(), what));
        }
    }
    // blinding that cancels between the commitments of one range proof: a product / quotient of two of its
    // group elements equal to g^k for an exponent k that is a public function of the hidden value
    for (ri, (prefix, lo, hi, kind, x)) in b.ranges.iter().enumerate() {
        let g = &b.range_bases[ri];
        let vals: Vec<(String, Integer)> = ls.iter().filter(|(p, v)| p.starts_with(prefix.as_str()) && *v > 1 && v < n && v.significant_bits() + 64 > n.significant_bits())
            .map(|(p, v)| (p[prefix.len()..].to_string(), v.clone())).collect();
        let mut combos: HashMap<Integer, String> = HashMap::new();
        for (i, (pa, va)) in vals.iter().enumerate() {
            combos.entry(va.clone()).or_insert_with(|| pa.clone());
            for (pb, vb) in vals.iter().skip(i + 1) {
                combos.entry(mulm(va, vb, n)).or_insert_with(|| format!("{}*{}", pa, pb));
                if let Ok(inv) = vb.clone().invert(n) {
                    combos.entry(mulm(va, &inv, n)).or_insert_with(|| format!("{}/{}", pa, pb));
                }
            }
        }
        let exps = |xx: &Integer| -> Vec<Integer> {
            let (t, aa, bb) = boudot_public(lo, hi);
            let xp = Integer::from(xx << t);
            let w = boudot_witnesses("w", xx, lo, hi);
            let (a1, b1, a2, b2) = (w[0].1.clone(), w[1].1.clone(), w[2].1.clone(), w[3].1.clone());
            let base: Vec<Integer> = vec![Integer::from(&a1 * &a1), Integer::from(&b1 * &b1), a2.clone(), b2.clone(), a1, b1, xp.clone(), Integer::from(&xp - &aa), Integer::from(&bb - &xp), xx.clone()];
            let mut out = base.clone();
            for i in 0..base.len() {
                for j in i + 1..base.len() {
                    out.push(Integer::from(&base[i] + &base[j]));
                    out.push(Integer::from(&base[i] - &base[j]));
                }
            }
            out
        };
        let hit = |xx: &Integer| -> Option<String> {
            for k in exps(xx) {
                // g^0 = 1 is the quotient of any two fields that carry the same group element (by design the
                // proof of square repeats E_a_1): it says nothing about the hidden value
                if k == 0 {
                    continue;
                }
                let gk = if k >= 0 { powm(g, &k, n) } else { match powm(g, &Integer::from(-&k), n).invert(n) { Ok(v) => v, Err(_) => continue } };
                if let Some(w) = combos.get(&gk) {
                    return Some(w.clone());
                }
            }
            None
        };
        ctx.count("cancellation_tests(range proofs)", 1);
        if let Some(w) = hit(x) {
            let decoy = Integer::from(x ^ Integer::from(0x33u32));
            if hit(&decoy).is_none() {
                found.push((format!("{}{}", path_class(prefix), w), "no-blinding-left".into(), "combination-of-sibling-commitments".into(), kind.clone()));
            }
        }
    }
    // blinding that cancels between ANY two group elements the recipient holds (proof fields and the public
    // inputs): V / W or V * W equal to a product of public bases raised to +-(hidden attribute values) lets
    // the recipient confirm guessed values. Decoy values must not hit.
    if !b.hidden.is_empty() {
        let mut vals: Vec<(&Integer, &String)> = values.iter().filter(|(v, _)| v.significant_bits() + 64 > n.significant_bits()).collect();
        if vals.len() > 300 {
            // very many fields: the group elements inside range proofs are left to the per-range-proof oracle above
            vals.retain(|(_, f)| !f.contains("range_proof"));
            ctx.count("pairwise_oracle_without_range_proof_fields", 1);
        }
        let mut combos: HashMap<Integer, String> = HashMap::new();
        for (i, (va, pa)) in vals.iter().enumerate() {
            let Ok(inva) = (*va).clone().invert(n) else { continue };
            for (vb, pb) in vals.iter().skip(i + 1) {
                combos.entry(mulm(vb, &inva, n)).or_insert_with(|| format!("{}/{}", pb, pa));
                if let Ok(invb) = (*vb).clone().invert(n) {
                    combos.entry(mulm(va, &invb, n)).or_insert_with(|| format!("{}/{}", pa, pb));
                }
                combos.entry(mulm(va, vb, n)).or_insert_with(|| format!("{}*{}", pa, pb));
            }
        }
        ctx.count("pairwise_combinations_of_group_elements", combos.len() as u64);
        let k = b.hidden.len();
        let mut eps: Vec<Vec<i32>> = vec![];
        if k <= 4 {
            let total = 3usize.pow(k as u32);
            for code in 1..total {
                let mut c = code;
                eps.push((0..k).map(|_| { let d = (c % 3) as i32; c /= 3; if d == 2 { -1 } else { d } }).collect());
            }
        } else {
            for i in 0..k {
                for s1 in [1, -1] {
                    let mut e = vec![0; k];
                    e[i] = s1;
                    eps.push(e.clone());
                    for j in i + 1..k.min(i + 4) {
                        for s2 in [1, -1] {
                            let mut e2 = e.clone();
                            e2[j] = s2;
                            eps.push(e2);
                        }
                    }
                }
            }
        }
        let families: Vec<Vec<&(String, Integer, Integer)>> = vec![
            b.base_pairs.iter().filter(|x| x.0.starts_with("(g_")).collect(),
            b.base_pairs.iter().filter(|x| x.0.starts_with("(a_")).collect(),
        ];
        let hit = |vals_of: &dyn Fn(usize) -> Integer| -> Option<(String, Vec<i32>)> {
            for pairs in &families {
                if pairs.is_empty() {
                    continue;
                }
                let pw: Vec<(Integer, Integer)> = b.hidden.iter().enumerate().map(|(hk, (i, _))| {
                    let p = powm(&pairs[*i].1, &vals_of(hk), n);
                    let inv = p.clone().invert(n).unwrap_or_else(|_| Integer::from(1));
                    (p, inv)
                }).collect();
                for e in &eps {
                    let mut t = Integer::from(1);
                    for (hk, s) in e.iter().enumerate() {
                        if *s == 1 { t = mulm(&t, &pw[hk].0, n) } else if *s == -1 { t = mulm(&t, &pw[hk].1, n) }
                    }
                    if t == 1 {
                        continue;
                    }
                    if let Some(w) = combos.get(&t) {
                        return Some((w.clone(), e.clone()));
                    }
                }
            }
            None
        };
        ctx.count("cancellation_tests(any two group elements)", eps.len() as u64 * 2);
        if let Some((w, e)) = hit(&|hk| b.hidden[hk].1.clone()) {
            if hit(&|hk| Integer::from(&b.hidden[hk].1 ^ Integer::from(0x5a5a5au32))).is_none() {
                found.push((w, format!("exponents{:?}", e), "no-blinding-left".into(), "combination-of-two-group-elements~hidden-attributes".into()));
            }
        }
    }
    found.sort();
    found.dedup();
    for (vf, rf, bl, kind) in &found {
        let _ = bl;
        ctx.violation(
            &format!("C17:{}:pair=({},{})~{}", b.kind, vf, rf, kind),
            json!({"proof":b.label,"value_field":vf,"randomness_field":rf,"base_pair":bl,"secret":kind}),
        );
    }
    ctx.sample(json!({"proof":b.label,"integer_leaves":ls.len(),"candidate_values":values.len(),"candidate_rhos":rhos.len(),"secrets_tested":b.secrets.iter().map(|s| s.0.clone()).collect::<Vec<_>>(),"openings_found":found.len()}));
}

/// Dictionary attack through sizes: the recipient holds two candidate values of very different magnitude for a hidden
/// attribute. If the bit length of some proof field follows the hidden value, the lengths observed over a few proofs
/// of each candidate fall into disjoint ranges and identify the committed one. Fields whose length ranges for the
/// two candidates are separated by a clear gap are reported.
fn size_channel<C: Cs>(ctx: &Ctx, idx: u64) {
    use std::collections::BTreeMap;
    use zkryptium::schemes::algorithms::CL03;
    use zkryptium::schemes::generics::{Commitment, PoKSignature, Signature, ZKPoK};
    use zkryptium::utils::message::cl03_message::CL03Message;
    let mut r = ctx.rng("c17s", idx);
    let n = 3usize;
    let Some(st) = Setup::<C>::new(ctx, n) else {
        ctx.inconclusive("C17: key generation panicked (C18's business)");
        return;
    };
    let (bases, cpk) = (st.bases_n(n), st.cpk_n(n));
    let candidates: Vec<(&str, Integer)> = vec![
        ("0", Integer::from(0)), ("18", Integer::from(18)), ("2^65", Integer::from(1) << 65u32),
        ("2^128+1", (Integer::from(1) << 128u32) + 1u32), ("2^lm-1", (Integer::from(1) << C::lm) - 1u32),
    ];
    let per = ctx.t(4usize, 12usize);
    // kind -> field class -> candidate -> (min bits, max bits)
    let mut seen: BTreeMap<(String, String), BTreeMap<String, (u32, u32)>> = BTreeMap::new();
    // (kind, "fieldA==fieldB") -> candidate -> number of proofs in which the two fields coincide; proofs per (kind, candidate)
    let mut eq_seen: BTreeMap<(String, String), BTreeMap<String, u32>> = BTreeMap::new();
    let mut eq_total: BTreeMap<(String, String), u32> = BTreeMap::new();
    for (cn, cv) in &candidates {
        for k in 0..per {
            let u: Vec<usize> = if k % 2 == 0 { vec![1] } else { vec![0, 1] };
            let mut msgs = attributes::<C>(&mut r, n, 0);
            msgs[1] = CL03Message::new(cv.clone());
            let case = format!("{}/size-channel/candidate={}/U={:?}", C::NAME, cn, u);
            ctx.distinct(&case);
            let sig = Signature::<CL03<C>>::sign_multiattr(st.pk(), st.sk(), &bases, &msgs);
            let mut views: Vec<(&str, serde_json::Value)> = vec![];
            if let Some(p) = ctx.call("PoKSignature::proof_gen", &case, None, || Ok::<_, ()>(PoKSignature::<CL03<C>>::proof_gen(sig.cl03Signature(), &cpk, st.pk(), &bases, &msgs, &u))).value {
                views.push(("spok", serde_json::to_value(&p).unwrap()));
            }
            let com = Commitment::<CL03<C>>::commit_with_pk(&msgs, st.pk(), &bases, Some(&u));
            if let Some(z) = ctx.call("ZKPoK::generate_proof", &case, None, || Ok::<_, ()>(ZKPoK::<CL03<C>>::generate_proof(&msgs, com.cl03Commitment(), None, st.pk(), &bases, None, &u))).value {
                views.push(("zkpok", serde_json::to_value(&z).unwrap()));
            }
            for (kind, j) in views {
                // pairs of large fields with equal values, by field class
                {
                    let kk = format!("{kind}/U{}", u.len());
                    *eq_total.entry((kk.clone(), cn.to_string())).or_insert(0) += 1;
                    let mut by_value: HashMap<Integer, Vec<String>> = HashMap::new();
                    for (p, v) in leaves(&j) {
                        if v.significant_bits() >= 128 {
                            by_value.entry(v).or_default().push(path_class(&p));
                        }
                    }
                    let mut pairs: std::collections::BTreeSet<String> = Default::default();
                    for (_, ps) in by_value {
                        for a in 0..ps.len() {
                            for b2 in a + 1..ps.len() {
                                let (x, y) = if ps[a] <= ps[b2] { (&ps[a], &ps[b2]) } else { (&ps[b2], &ps[a]) };
                                pairs.insert(format!("{x}=={y}"));
                            }
                        }
                    }
                    for pr in pairs {
                        *eq_seen.entry((kk.clone(), pr)).or_default().entry(cn.to_string()).or_insert(0) += 1;
                    }
                }
                for (p, v) in leaves(&j) {
                    // position 1 is the candidate's: per-attribute arrays are indexed by rank within U
                    let e = seen.entry((format!("{kind}/U{}", u.len()), p)).or_default().entry(cn.to_string()).or_insert((u32::MAX, 0));
                    let b = v.significant_bits();
                    e.0 = e.0.min(b);
                    e.1 = e.1.max(b);
                }
            }
            ctx.count("size_channel_proofs", 2);
        }
    }
    // equality patterns: which pairs of fields carry the same value. A pair that coincides in every proof of one
    // candidate and in no proof of another identifies the candidate without any arithmetic.
    for ((kind, pair), by_cand) in &eq_seen {
        let total = |c: &str| eq_total.get(&(kind.clone(), c.to_string())).copied().unwrap_or(0);
        for (ca, na) in by_cand {
            if *na < total(ca) || *na < 2 {
                continue;
            }
            for (cb, _) in &candidates {
                if by_cand.get(*cb).copied().unwrap_or(0) == 0 && total(cb) >= 2 && ca != cb {
                    ctx.violation(
                        &format!("C17:{}:field-equality-identifies-candidate/{}", kind.split('/').next().unwrap(), pair),
                        json!({"proof":kind,"equal_fields":pair,"always_for_candidate":ca,"never_for_candidate":cb}),
                    );
                }
            }
        }
    }
    ctx.count("size_channel_equal_field_pairs_seen", eq_seen.len() as u64);
    let mut fields = 0u64;
    for ((kind, path), by_cand) in &seen {
        fields += 1;
        let v: Vec<(&String, &(u32, u32))> = by_cand.iter().collect();
        for i in 0..v.len() {
            for k in i + 1..v.len() {
                let (a, b) = (v[i].1, v[k].1);
                let gap = if a.1 < b.0 { b.0 - a.1 } else if b.1 < a.0 { a.0 - b.1 } else { 0 };
                // lengths of honest responses vary by a few bits with the blinding; a gap of 12 bits between two samples
                // of >= 4 proofs each does not arise from uniformly or fixed-length blinded responses
                if gap >= 12 {
                    ctx.violation(
                        &format!("C17:{}:field-length-identifies-candidate/{}", kind.split('/').next().unwrap(), path_class(path)),
                        json!({"proof":kind,"field":path,"candidate_a":v[i].0,"bits_a":[a.0,a.1],"candidate_b":v[k].0,"bits_b":[b.0,b.1],"proofs_per_candidate":per}),
                    );
                }
            }
        }
    }
    ctx.count("size_channel_fields_compared", fields);
    ctx.sample(json!({"workload":"size channel","candidates":candidates.iter().map(|c| c.0).collect::<Vec<_>>(),"proofs_per_candidate":per * 2,"fields_compared":fields}));
}

/// Fresh randomness across threads: the same statement is proved on several threads at once (same commitment key, and a
/// second key so that challenges differ while the sequence of draws is the same). No large field may repeat between
/// two proofs, and (s - s') / (c - c') over two proofs must not be a secret (two-transcript extraction).
fn cross_thread<C: Cs>(ctx: &Ctx, idx: u64) {
    use zkryptium::schemes::algorithms::CL03;
    use zkryptium::schemes::generics::{Commitment, PoKSignature, Signature, ZKPoK};
    let mut r = ctx.rng("c17x", idx);
    let n = 2usize;
    let Some(st) = Setup::<C>::new(ctx, n) else {
        ctx.inconclusive("C17: key generation panicked (C18's business)");
        return;
    };
    let (bases, cpk) = (st.bases_n(n), st.cpk_n(n));
    let cpk2 = zkryptium::cl03::keys::CL03CommitmentPublicKey::generate::<C>(Some(st.pk().N.clone()), Some(n));
    let msgs = attributes::<C>(&mut r, n, 0);
    let u = vec![0usize];
    let sig = Signature::<CL03<C>>::sign_multiattr(st.pk(), st.sk(), &bases, &msgs);
    let sj = serde_json::to_value(&sig).unwrap();
    let e = leaves(&sj).into_iter().find(|(p, _)| p.ends_with("/e")).unwrap().1;
    let secrets: Vec<(&str, Integer)> = vec![("hidden-attribute", msgs[0].value.clone()), ("signature-exponent-e", e)];
    let threads = 4usize;
    let barrier = std::sync::Barrier::new(threads);
    let out: std::sync::Mutex<Vec<(String, serde_json::Value)>> = std::sync::Mutex::new(vec![]);
    let scn = current_scenario();
    std::thread::scope(|sc| {
        for t in 0..threads {
            let (barrier, out, scn, st, bases, cpk, cpk2, msgs, u, sig) = (&barrier, &out, &scn, &st, &bases, &cpk, &cpk2, &msgs, &u, &sig);
            sc.spawn(move || {
                set_scenario(scn);
                barrier.wait();
                let case = format!("{}/cross-thread/t{}", C::NAME, t);
                ctx.distinct(&case);
                for (kind, key) in [("spok/key1", cpk), ("spok/key2", cpk2), ("spok/key1", cpk)] {
                    if let Some(p) = ctx.call("PoKSignature::proof_gen", &case, None, || Ok::<_, ()>(PoKSignature::<CL03<C>>::proof_gen(sig.cl03Signature(), key, st.pk(), bases, msgs, u))).value {
                        out.lock().unwrap().push((kind.to_string(), serde_json::to_value(&p).unwrap()));
                    }
                }
                let com = Commitment::<CL03<C>>::commit_with_pk(msgs, st.pk(), bases, Some(u));
                if let Some(z) = ctx.call("ZKPoK::generate_proof", &case, None, || Ok::<_, ()>(ZKPoK::<CL03<C>>::generate_proof(msgs, com.cl03Commitment(), None, st.pk(), bases, None, u))).value {
                    let mut j = serde_json::to_value(&z).unwrap();
                    j["public_commitment"] = int_to_leaf(com.value());
                    out.lock().unwrap().push(("zkpok".to_string(), j));
                }
            });
        }
    });
    let proofs = out.into_inner().unwrap();
    ctx.count("cross_thread_proofs", proofs.len() as u64);
    // A: no large field repeats between two different proofs
    let mut first: HashMap<Integer, (usize, String)> = HashMap::new();
    for (k, (_, j)) in proofs.iter().enumerate() {
        for (p, v) in leaves(j) {
            if v.significant_bits() < 128 {
                continue;
            }
            match first.get(&v) {
                Some((k0, p0)) if *k0 != k => {
                    ctx.violation(&format!("C17:field-repeated-across-proofs/{}", path_class(&p)), json!({"first":{"proof":k0,"field":p0},"again":{"proof":k,"field":p},"bits":v.significant_bits()}));
                }
                Some(_) => {}
                None => {
                    first.insert(v, (k, p));
                }
            }
        }
    }
    // B: two-transcript extraction over every pair of proofs of the same shape
    let mut pairs = 0u64;
    for a in 0..proofs.len() {
        for b2 in a + 1..proofs.len() {
            if proofs[a].0.split('/').next() != proofs[b2].0.split('/').next() {
                continue;
            }
            let (la, lb) = (leaves(&proofs[a].1), leaves(&proofs[b2].1));
            let cb: HashMap<&String, &Integer> = lb.iter().map(|(p, v)| (p, v)).collect();
            let chs: Vec<Integer> = la.iter().filter(|(p, _)| p.ends_with("/challenge") || p.ends_with("/C")).filter_map(|(p, c)| cb.get(p).map(|c2| Integer::from(c - *c2))).filter(|d| *d != 0).collect();
            for (p, s1) in &la {
                let Some(s2) = cb.get(p) else { continue };
                let d = Integer::from(s1 - *s2);
                if d == 0 {
                    continue;
                }
                for dc in &chs {
                    if d.is_divisible(dc) {
                        let q = Integer::from(&d / dc);
                        for (kind, x) in &secrets {
                            if &q == x {
                                ctx.violation(&format!("C17:two-transcript-extraction/{}~{}", path_class(p), kind), json!({"proofs":[a, b2],"field":p}));
                            }
                        }
                    }
                }
            }
            pairs += 1;
        }
    }
    ctx.count("cross_thread_transcript_pairs", pairs);
    ctx.sample(json!({"workload":"cross-thread","threads":threads,"proofs":proofs.len(),"transcript_pairs":pairs}));
}

/// The range proof is generic over the hash. With a digest longer than 2t bits (a user-defined suite with SHA-512) the
/// blindings must still cover challenge * witness: the size channel over candidate values, on bare range proofs.
fn size_channel_range_proof<C: Cs, H: sha2::Digest>(ctx: &Ctx, idx: u64, hash_name: &str) {
    use std::collections::BTreeMap;
    use zkryptium::cl03::commitment::CL03Commitment;
    use zkryptium::cl03::range_proof::Boudot2000RangeProof as Rp;
    let mut r = ctx.rng("c17h", idx);
    let Some(st) = Setup::<C>::new(ctx, 1) else {
        ctx.inconclusive("C17: key generation panicked (C18's business)");
        return;
    };
    let (g, h, n) = (st.cpk.g_bases[0].clone(), st.cpk.h.clone(), st.cpk.N.clone());
    let (lo, hi) = (Integer::from(0), (Integer::from(1) << C::lm) - 1u32);
    let candidates: Vec<(&str, Integer)> = vec![
        ("0", Integer::from(0)), ("18", Integer::from(18)), ("2^65", Integer::from(1) << 65u32),
        ("2^128+1", (Integer::from(1) << 128u32) + 1u32), ("2^lm-1", hi.clone()),
    ];
    let per = ctx.t(4usize, 12usize);
    let mut seen: BTreeMap<String, BTreeMap<String, (u32, u32)>> = BTreeMap::new();
    for (cn, x) in &candidates {
        for _ in 0..per {
            let rr = rand_int_bits(&mut r, C::ln);
            let c = CL03Commitment { value: mulm(&powm(&g, x, &n), &powm(&h, &rr, &n), &n), randomness: rr };
            let case = format!("{}/size-channel/range-proof/{}/candidate={}", C::NAME, hash_name, cn);
            ctx.distinct(&case);
            let Some(p) = ctx.call("Boudot::prove", &case, None, || Ok::<_, ()>(Rp::prove::<H>(x, &c, &g, &h, &n, &lo, &hi))).value else {
                ctx.count("range_proof_generation_failed", 1);
                continue;
            };
            if ctx.call("Boudot::verify", &case, None, || Ok::<_, ()>(p.verify::<H>(&g, &h, &n, &lo, &hi))).value != Some(true) {
                ctx.count("range_proof_rejected(C16's business)", 1);
            }
            for (path, v) in leaves(&serde_json::to_value(&p).unwrap()) {
                let e = seen.entry(path).or_default().entry(cn.to_string()).or_insert((u32::MAX, 0));
                let b = v.significant_bits();
                e.0 = e.0.min(b);
                e.1 = e.1.max(b);
            }
            ctx.count("size_channel_range_proofs", 1);
        }
    }
    for (path, by_cand) in &seen {
        let v: Vec<(&String, &(u32, u32))> = by_cand.iter().collect();
        for i in 0..v.len() {
            for k in i + 1..v.len() {
                let (a, b) = (v[i].1, v[k].1);
                let gap = if a.1 < b.0 { b.0 - a.1 } else if b.1 < a.0 { a.0 - b.1 } else { 0 };
                if gap >= 12 {
                    ctx.violation(
                        &format!("C17:range-proof[{}]:field-length-identifies-candidate/{}", hash_name, path_class(path)),
                        json!({"field":path,"hash":hash_name,"candidate_a":v[i].0,"bits_a":[a.0,a.1],"candidate_b":v[k].0,"bits_b":[b.0,b.1]}),
                    );
                }
            }
        }
    }
}

fn run<C: Cs>(ctx: &Ctx, idx: u64, nmax: usize) {
    let mut r = ctx.rng("c17", idx);
    let Some(st) = Setup::<C>::new(ctx, nmax) else {
        ctx.inconclusive("C17: key generation panicked (C18's business)");
        return;
    };
    let mut bundles = all_bundles::<C>(ctx, &st, &mut r, nmax);
    let special = special_bundles::<C>(ctx, &st, &mut r, nmax);
    ctx.count("trusted_or_equal_attribute_proofs", special.len() as u64);
    bundles.extend(special);
    ctx.count("proofs_attacked", bundles.len() as u64);
    par_for_each(&bundles, 12, |b| attack(ctx, b));
}

pub fn scenarios(ctx: &Ctx) -> Vec<Scenario> {
    use zkryptium::cl03::ciphersuites::{CL1024Sha256, CL2048Sha256};
    let mut v = Vec::new();
    if !ctx.quick() {
        v.push(scenario("CL2048", move |c| run::<CL2048Sha256>(c, 200, 2)));
    }
    let nmax = ctx.t(3usize, 4usize);
    for i in 0..ctx.t(1u64, 3u64) {
        v.push(scenario("CL1024", move |c| run::<CL1024Sha256>(c, i, nmax)));
    }
    for i in 0..ctx.t(1u64, 3u64) {
        v.push(scenario("CL1024/size-channel", move |c| size_channel::<CL1024Sha256>(c, 500 + i)));
    }
    for i in 0..ctx.t(1u64, 4u64) {
        v.push(scenario("CL1024/cross-thread", move |c| cross_thread::<CL1024Sha256>(c, 600 + i)));
    }
    v.push(scenario("CL1024/size-channel/range-proof/sha256", move |c| size_channel_range_proof::<CL1024Sha256, sha2::Sha256>(c, 650, "SHA-256")));
    v.push(scenario("CL1024/size-channel/range-proof/sha512", move |c| size_channel_range_proof::<CL1024Sha256, sha2::Sha512>(c, 651, "SHA-512")));
    v.push(scenario("CL1024/size-channel/range-proof/sha384", move |c| size_channel_range_proof::<CL1024Sha256, sha2::Sha384>(c, 652, "SHA-384")));
    // many attributes, hidden positions deep in the vector
    let quick = ctx.quick();
    v.push(scenario("CL1024/large-n", move |c| {
        let mut r = c.rng("c17-large", 0);
        let shapes: Vec<(usize, Vec<usize>)> = if quick {
            vec![(70, vec![5, 64]), (33, vec![32]), (48, (0..45).collect())]
        } else {
            vec![(70, vec![5, 64]), (96, vec![31, 69, 95]), (33, vec![32]), (130, vec![0, 64, 128, 129]), (17, vec![16]), (48, (0..45).collect()), (70, (0..70).collect())]
        };
        let bundles = large_bundles::<CL1024Sha256>(c, &mut r, &shapes);
        c.count("proofs_attacked", bundles.len() as u64);
        c.count("large_attribute_count_proofs", bundles.len() as u64);
        par_for_each(&bundles, 8, |b| attack(c, b));
    }));
    v
}

//! C13 — CL03 signatures: issued ones verify, nothing else does.

use crate::clutil::*;
use crate::common::*;
use rug::Integer;
use serde_json::{json, Value};
use std::sync::Mutex;
use zkryptium::cl03::bases::Bases;
use zkryptium::schemes::algorithms::CL03;
use zkryptium::schemes::generics::Signature;
use zkryptium::utils::message::cl03_message::CL03Message;

pub static E_VALUES: Mutex<Vec<Value>> = Mutex::new(Vec::new());

type Sig<C> = Signature<CL03<C>>;

fn sig_parts<C: Cs>(s: &Sig<C>) -> (Integer, Integer, Integer) {
    let v = serde_json::to_value(s).unwrap();
    let l = leaves(&v);
    let get = |k: &str| l.iter().find(|(p, _)| p.ends_with(k)).unwrap().1.clone();
    (get("/e"), get("/s"), get("/v"))
}

fn sig_from<C: Cs>(template: &Sig<C>, e: &Integer, s: &Integer, v: &Integer) -> Sig<C> {
    let mut j = serde_json::to_value(template).unwrap();
    set_leaf(&mut j, "/CL03/e", e);
    set_leaf(&mut j, "/CL03/s", s);
    set_leaf(&mut j, "/CL03/v", v);
    serde_json::from_value(j).unwrap()
}

fn must_fail<C: Cs>(ctx: &Ctx, kind: &str, case: &str, sig: &Sig<C>, pk: &zkryptium::cl03::keys::CL03PublicKey, bases: &Bases, msgs: &[CL03Message], detail: Value) {
    let full = format!("{}/{}", case, kind);
    ctx.distinct(&full);
    let m = ctx.call("verify_multiattr", &full, None, || Ok::<_, ()>(sig.verify_multiattr(pk, bases, msgs)));
    if m.value == Some(true) {
        ctx.violation(&format!("C13:accepted/{}", kind.split('#').next().unwrap()), json!({"case":full,"detail":detail}));
    }
    if msgs.len() == 1 {
        let m = ctx.call("verify", &full, None, || Ok::<_, ()>(sig.verify(pk, bases, &msgs[0])));
        if m.value == Some(true) {
            ctx.violation(&format!("C13:accepted(single-attribute verify)/{}", kind.split('#').next().unwrap()), json!({"case":full,"detail":detail}));
        }
    }
}

fn run<C: Cs>(ctx: &Ctx, idx: u64, nmax: usize, mixes: usize) {
    let mut r = ctx.rng("c13", idx);
    let Some(st) = Setup::<C>::new(ctx, nmax) else {
        ctx.inconclusive("C13: key generation panicked (C18's business)");
        return;
    };
    let other = Setup::<C>::new(ctx, nmax);
    let (pk, sk) = (st.pk().clone(), st.sk().clone());
    let phi = Integer::from(&sk.p - 1u32) * Integer::from(&sk.q - 1u32);
    let two_lm = Integer::from(1) << C::lm;
    for n in 1..=nmax {
        let bases = st.bases_n(n);
        for mix in 0..mixes {
            let msgs = attributes::<C>(&mut r, n, mix);
            let case = format!("{}/n{}/mix{}/k{}", C::NAME, n, mix, idx);
            ctx.distinct(&case);
            // ---------------- positive
            let sig = if n == 1 && mix % 2 == 0 {
                ctx.call("sign", &case, None, || Ok::<_, ()>(Sig::<C>::sign(&pk, &sk, &bases, &msgs[0]))).value
            } else {
                ctx.call("sign_multiattr", &case, None, || Ok::<_, ()>(Sig::<C>::sign_multiattr(&pk, &sk, &bases, &msgs))).value
            };
            let Some(sig) = sig else {
                ctx.violation("C13:sign-panicked", json!({"case":case}));
                continue;
            };
            let ok = ctx.call("verify_multiattr", &case, None, || Ok::<_, ()>(sig.verify_multiattr(&pk, &bases, &msgs))).value;
            if ok != Some(true) {
                ctx.violation("C13:issued-signature-rejected/verify_multiattr", json!({"case":case,"attributes":msgs.iter().map(|m| ihex(&m.value)).collect::<Vec<_>>()}));
                continue;
            }
            if n == 1 {
                let ok = ctx.call("verify", &case, None, || Ok::<_, ()>(sig.verify(&pk, &bases, &msgs[0]))).value;
                if ok != Some(true) {
                    ctx.violation("C13:issued-signature-rejected/verify", json!({"case":case}));
                }
            }
            let (e, s, v) = sig_parts::<C>(&sig);
            // s: a random exponent of exactly ls bits (both signing paths)
            if s.significant_bits() != C::ls {
                ctx.violation("C13:s-wrong-bit-length", json!({"case":case,"bits":s.significant_bits(),"ls":C::ls,"n":n}));
            }
            // e: exactly le bits, coprime to phi(N) (primality is decided offline by the Python checker)
            if e.significant_bits() != C::le {
                ctx.violation("C13:e-wrong-bit-length", json!({"case":case,"bits":e.significant_bits(),"le":C::le}));
            }
            if Integer::from(e.gcd_ref(&phi)) != 1 {
                ctx.violation("C13:e-not-coprime-to-phi", json!({"case":case}));
            }
            E_VALUES.lock().unwrap().push(json!({"case":case,"e":e.to_string_radix(16),"le":C::le}));
            // selective disclosure of bases: all subsets
            for u in all_subsets(n) {
                let sd = ctx.call("disclose_selectively", &case, None, || Ok::<_, ()>(sig.disclose_selectively(&msgs, bases.clone(), &pk, &u))).value;
                match sd {
                    Some((sm, sb)) => {
                        let ok = ctx.call("verify_multiattr", &case, None, || Ok::<_, ()>(sig.verify_multiattr(&pk, &sb, &sm))).value;
                        if ok != Some(true) {
                            ctx.violation("C13:selective-disclosure-rejected", json!({"case":case,"hidden":u}));
                        }
                        for &i in &u {
                            if sm[i].value == msgs[i].value && msgs[i].value != 1 {
                                ctx.violation("C13:selective-disclosure-leaves-attribute", json!({"case":case,"hidden":u,"i":i}));
                            }
                        }
                        ctx.distinct(&format!("{}/sd{:?}", case, u));
                    }
                    None => ctx.violation("C13:selective-disclosure-panicked", json!({"case":case,"hidden":u})),
                }
            }
            // encodings
            let b = sig.to_bytes();
            match ctx.call("Signature::from_bytes", &case, None, || Ok::<_, ()>(Sig::<C>::from_bytes(&b))).value {
                Some(s2) if s2 == sig && s2.verify_multiattr(&pk, &bases, &msgs) => {}
                _ => ctx.violation("C13:roundtrip/bytes", json!({"case":case})),
            }
            match serde_json::from_str::<Sig<C>>(&serde_json::to_string(&sig).unwrap()) {
                Ok(s2) if s2 == sig && s2.verify_multiattr(&pk, &bases, &msgs) => {}
                _ => ctx.violation("C13:roundtrip/json", json!({"case":case})),
            }
            // ---------------- negative
            let att = |m: &[CL03Message]| json!(m.iter().map(|x| ihex(&x.value)).collect::<Vec<_>>());
            for i in 0..n {
                let mut m2 = msgs.clone();
                m2[i].value = Integer::from(&m2[i].value ^ 1u32);
                must_fail::<C>(ctx, "attribute-changed", &case, &sig, &pk, &bases, &m2, json!({"i":i}));
                let mut m2 = msgs.clone();
                m2[i] = attribute::<C>(&mut r, 4);
                if m2[i].value != msgs[i].value {
                    must_fail::<C>(ctx, "attribute-replaced", &case, &sig, &pk, &bases, &m2, json!({"i":i}));
                }
                // attribute shifted by a multiple of e, with v' = v * a_i^k : derivable WITHOUT the secret key
                for k in [1i64, 2, 1024, -1, -2] {
                    let ai = &bases.0[i];
                    let kk = Integer::from(k);
                    let vk = mulm(&v, &powm(ai, &kk, &pk.N), &pk.N);
                    let mut m2 = msgs.clone();
                    m2[i].value = Integer::from(&msgs[i].value + Integer::from(&e * &kk));
                    let forged = sig_from::<C>(&sig, &e, &s, &vk);
                    must_fail::<C>(ctx, &format!("shift-by-k*e#k={k}"), &case, &forged, &pk, &bases, &m2, json!({"i":i,"k":k,"attributes":att(&m2),"negative":m2[i].value < 0}));
                    // the shifted vector with the ORIGINAL signature must fail as well
                    must_fail::<C>(ctx, &format!("shifted-vector-original-signature#k={k}"), &case, &sig, &pk, &bases, &m2, json!({"i":i,"k":k}));
                }
                // oversized / negative attribute derived with the group order known to the issuer only is not
                // available to outsiders; but m_i + 2^lm and -m_i must not verify either
                let mut m2 = msgs.clone();
                m2[i].value = Integer::from(&msgs[i].value + &two_lm);
                must_fail::<C>(ctx, "attribute-plus-2^lm", &case, &sig, &pk, &bases, &m2, json!({"i":i}));
                let mut m2 = msgs.clone();
                m2[i].value = Integer::from(-&msgs[i].value) - 1u32;
                must_fail::<C>(ctx, "attribute-negative", &case, &sig, &pk, &bases, &m2, json!({"i":i}));
                for j in i + 1..n {
                    if msgs[i].value != msgs[j].value {
                        let mut m2 = msgs.clone();
                        m2.swap(i, j);
                        must_fail::<C>(ctx, "attributes-swapped", &case, &sig, &pk, &bases, &m2, json!({"i":i,"j":j}));
                    }
                }
            }
            // (dropping a zero attribute leaves the signed product unchanged: a_i^0 = 1; not asserted)
            if n > 1 && msgs[n - 1].value != 0 {
                must_fail::<C>(ctx, "attribute-dropped", &case, &sig, &pk, &bases, &msgs[..n - 1], json!({}));
            }
            // signature components
            let zero = Integer::from(0);
            let comps: Vec<(&str, Integer, Integer, Integer)> = vec![
                ("e+1", Integer::from(&e + 1u32), s.clone(), v.clone()),
                ("e-1", Integer::from(&e - 1u32), s.clone(), v.clone()),
                ("e=0", zero.clone(), s.clone(), v.clone()),
                ("e=1", Integer::from(1), s.clone(), v.clone()),
                ("e+phi-like(2e)", Integer::from(&e * 2u32), s.clone(), v.clone()),
                ("s+1", e.clone(), Integer::from(&s + 1u32), v.clone()),
                ("s-1", e.clone(), Integer::from(&s - 1u32), v.clone()),
                ("s=0", e.clone(), zero.clone(), v.clone()),
                ("v+1", e.clone(), s.clone(), Integer::from(&v + 1u32)),
                ("v-1", e.clone(), s.clone(), Integer::from(&v - 1u32)),
                ("v=0", e.clone(), s.clone(), zero.clone()),
                ("v=1", e.clone(), s.clone(), Integer::from(1)),
                ("v+N", e.clone(), s.clone(), Integer::from(&v + &pk.N)),
                ("-v", e.clone(), s.clone(), Integer::from(&pk.N - &v)),
                ("e<->s", s.clone(), e.clone(), v.clone()),
                ("s<->v", e.clone(), v.clone(), s.clone()),
                ("e<->v", v.clone(), s.clone(), e.clone()),
                // v^(2e) = (a^m b^s c)^2 : e doubled with the square on the right-hand side is not reachable; but
                // e' = 2e with v' = sqrt is not computable; e' = e/.. no. A too-large e with matching v: e' = e + 2^le
                ("e+2^le", Integer::from(&e + (Integer::from(1) << C::le)), s.clone(), v.clone()),
            ];
            // two-field variants that anyone can derive from a valid signature without the key: they keep the attribute
            // vector but must not verify, because e must stay a positive le-bit value (and v a canonical residue)
            let mut comps = comps;
            if let Ok(vinv) = v.clone().invert(&pk.N) {
                comps.push(("(-e, v^-1)", Integer::from(-&e), s.clone(), vinv.clone()));
                comps.push(("(-e, v^-1 - N)", Integer::from(-&e), s.clone(), Integer::from(&vinv - &pk.N)));
            }
            comps.push(("-e", Integer::from(-&e), s.clone(), v.clone()));
            comps.push(("-s", e.clone(), Integer::from(-&s), v.clone()));
            comps.push(("v-N", e.clone(), s.clone(), Integer::from(&v - &pk.N)));
            for (nm, e2, s2, v2) in comps {
                let forged = sig_from::<C>(&sig, &e2, &s2, &v2);
                // "v+N" / "v-N" are other representatives of the same residue: still an altered component (the encoded
                // signature differs), so they must not verify either (F18: verify now accepts only v in (0, N))
                must_fail::<C>(ctx, &format!("component#{nm}"), &case, &forged, &pk, &bases, &msgs, json!({"edit":nm}));
            }
            // search forgeries without the key: trivial v (1, N-1, 2) with s ranging over many values. The two sides of the
            // verification equation are then unrelated residues; any verifier that compares less than the whole value (a
            // prefix, some bytes, a truncated digest) lets a fraction of these through.
            if mix == 0 && n <= 2 {
                let tries = ctx.t(1500usize, 12000usize);
                let mut accepted: Vec<String> = vec![];
                let m = ctx.call("verify_multiattr x N (s search)", &case, None, || {
                    for (vn, v2) in [("1", Integer::from(1)), ("N-1", Integer::from(&pk.N - 1u32)), ("2", Integer::from(2))] {
                        for j in 0..tries / 3 {
                            let forged = sig_from::<C>(&sig, &e, &Integer::from(&s + (j as u32 + 1)), &v2);
                            if forged.verify_multiattr(&pk, &bases, &msgs) {
                                accepted.push(format!("v={vn}, s+{}", j + 1));
                            }
                        }
                    }
                    Ok::<_, ()>(())
                });
                let _ = m;
                ctx.count("forgery_search_attempts(trivial v, s range)", tries as u64);
                if !accepted.is_empty() {
                    ctx.violation("C13:accepted/searched-forgery-with-trivial-v", json!({"case":case,"hits":accepted.iter().take(5).collect::<Vec<_>>(),"attempts":tries}));
                }
            }
            // other bases / other key. If every attribute is 0 the bases do not enter the statement at all
            // (prod a_i^0 = 1): other bases are then the same statement and are not asserted.
            let all_zero = msgs.iter().all(|m| m.value == 0);
            let mut b2 = bases.clone();
            b2.0.reverse();
            if b2.0 != bases.0 && !all_zero {
                must_fail::<C>(ctx, "bases-reversed", &case, &sig, &pk, &b2, &msgs, json!({}));
            }
            let b3 = Bases::generate(&pk, n);
            if !all_zero {
                must_fail::<C>(ctx, "bases-other", &case, &sig, &pk, &b3, &msgs, json!({}));
            } else {
                ctx.count("base_edits_skipped(all attributes are 0)", 1);
            }
            if let Some(o) = &other {
                must_fail::<C>(ctx, "key-other", &case, &sig, o.pk(), &bases, &msgs, json!({}));
                must_fail::<C>(ctx, "key-and-bases-other", &case, &sig, o.pk(), &o.bases_n(n), &msgs, json!({}));
            }
            let mut pk2 = pk.clone();
            std::mem::swap(&mut pk2.b, &mut pk2.c);
            must_fail::<C>(ctx, "key-b<->c", &case, &sig, &pk2, &bases, &msgs, json!({}));
            if mix == 0 {
                ctx.sample(json!({"case":case,"attributes":att(&msgs),"e_bits":e.significant_bits(),"s_bits":s.significant_bits(),"verify":true}));
            }
        }
    }
}

/// many signatures on random vectors: completeness and the encodings must not depend on rare value shapes
/// (leading zero bytes in e, s, v, attributes of special form)
fn volume<C: Cs>(ctx: &Ctx, idx: u64, count: usize) {
    let mut r = ctx.rng("c13v", idx);
    let Some(st) = Setup::<C>::new(ctx, 3) else {
        ctx.inconclusive("C13: key generation panicked (C18's business)");
        return;
    };
    let items: Vec<Vec<CL03Message>> = (0..count).map(|k| attributes::<C>(&mut r, 1 + k % 3, k % 7)).collect();
    par_for_each(&items, 16, |msgs| {
        let n = msgs.len();
        let bases = st.bases_n(n);
        let case = format!("{}/volume/n{}", C::NAME, n);
        let Some(sig) = ctx.call("sign_multiattr", &case, None, || Ok::<_, ()>(Sig::<C>::sign_multiattr(st.pk(), st.sk(), &bases, msgs))).value else {
            ctx.violation("C13:sign-panicked", json!({"case":case}));
            return;
        };
        let (e, s, v) = sig_parts::<C>(&sig);
        ctx.distinct(&format!("{}/e={}", case, e));
        if ctx.call("verify_multiattr", &case, None, || Ok::<_, ()>(sig.verify_multiattr(st.pk(), &bases, msgs))).value != Some(true) {
            ctx.violation("C13:issued-signature-rejected/verify_multiattr", json!({"case":case,"e_bits":e.significant_bits(),"s_bits":s.significant_bits(),"v_bits":v.significant_bits()}));
        }
        let b = sig.to_bytes();
        match ctx.call("Signature::from_bytes", &case, None, || Ok::<_, ()>(Sig::<C>::from_bytes(&b))).value {
            Some(s2) if s2 == sig => {}
            _ => ctx.violation("C13:roundtrip/bytes", json!({"case":case,"v_bits":v.significant_bits()})),
        }
        match serde_json::from_str::<Sig<C>>(&serde_json::to_string(&sig).unwrap()) {
            Ok(s2) if s2 == sig => {}
            _ => ctx.violation("C13:roundtrip/json", json!({"case":case})),
        }
        if e.significant_bits() != C::le {
            ctx.violation("C13:e-wrong-bit-length", json!({"case":case,"bits":e.significant_bits()}));
        }
        E_VALUES.lock().unwrap().push(json!({"case":case,"e":e.to_string_radix(16),"le":C::le}));
    });
    ctx.count("volume_signatures", count as u64);
}

pub fn scenarios(ctx: &Ctx) -> Vec<Scenario> {
    use zkryptium::cl03::ciphersuites::{CL1024Sha256, CL2048Sha256, CL3072Sha256};
    let mut v = Vec::new();
    if !ctx.quick() {
        v.push(scenario("CL3072", |c| run::<CL3072Sha256>(c, 300, 2, 1)));
        v.push(scenario("CL2048", |c| run::<CL2048Sha256>(c, 200, 3, 2)));
    }
    let count = ctx.t(3000usize, 12000usize);
    v.push(scenario("CL1024/volume", move |c| volume::<CL1024Sha256>(c, 900, count)));
    let mixes = ctx.t(3usize, 8usize);
    for i in 0..ctx.t(2u64, 10u64) {
        v.push(scenario("CL1024", move |c| run::<CL1024Sha256>(c, i, 5, mixes)));
    }
    v
}

pub fn finish(ctx: &Ctx) {
    ctx.set_extra("e_values", json!(*E_VALUES.lock().unwrap()));
}

//! C15 — CL03 proof of knowledge of a signature: complete and bound to its statement.

use crate::clutil::*;
use crate::common::*;
use rug::Integer;
use serde_json::{json, Value};
use zkryptium::cl03::keys::CL03CommitmentPublicKey;
use zkryptium::schemes::algorithms::CL03;
use zkryptium::schemes::generics::{PoKSignature, Signature};
use zkryptium::utils::message::cl03_message::CL03Message;

type Pok<C> = PoKSignature<CL03<C>>;

fn one<C: Cs>(ctx: &Ctx, st: &Setup<C>, other: Option<&Setup<C>>, r: &mut impl rand::RngCore, n: usize, u: Vec<usize>, tamper: bool) {
    let bases = st.bases_n(n);
    let cpk = st.cpk_n(n);
    let mix = rand_range(r, 4);
    let msgs = attributes::<C>(r, n, mix);
    let case = format!("{}/n{}/U={:?}", C::NAME, n, u);
    ctx.distinct(&case);
    let sig = Signature::<CL03<C>>::sign_multiattr(st.pk(), st.sk(), &bases, &msgs);
    let g = ctx.call("PoKSignature::proof_gen", &case, None, || Ok::<_, ()>(Pok::<C>::proof_gen(sig.cl03Signature(), &cpk, st.pk(), &bases, &msgs, &u)));
    let Some(proof) = g.value else {
        ctx.violation("C15:proof_gen-panicked", json!({"case":case,"outcome":g.outcome.short()}));
        return;
    };
    let revealed: Vec<CL03Message> = (0..n).filter(|i| !u.contains(i)).map(|i| msgs[i].clone()).collect();
    let verify = |p: &Pok<C>, ck: &CL03CommitmentPublicKey, pk: &zkryptium::cl03::keys::CL03PublicKey, b: &zkryptium::cl03::bases::Bases, rev: &[CL03Message], uu: &[usize], nn: usize| {
        p.proof_verify(ck, pk, b, rev, uu, nn)
    };
    let ok = ctx.call("PoKSignature::proof_verify", &case, None, || Ok::<_, ()>(verify(&proof, &cpk, st.pk(), &bases, &revealed, &u, n)));
    if ok.value != Some(true) {
        ctx.violation("C15:honest-proof-rejected", json!({"case":case,"outcome":format!("{:?}/{}", ok.value, ok.outcome.short())}));
        return;
    }
    // JSON round trip still verifies
    let j = serde_json::to_value(&proof).unwrap();
    match serde_json::from_value::<Pok<C>>(j.clone()) {
        Ok(p2) if p2 == proof && verify(&p2, &cpk, st.pk(), &bases, &revealed, &u, n) => {}
        _ => ctx.violation("C15:json-roundtrip", json!({"case":case})),
    }
    if let Some(mode) = json_modes(&proof) {
        ctx.violation("C15:json-roundtrip", json!({"case":case,"mode":mode}));
    }
    let reject = |kind: &str, f: &dyn Fn() -> bool| {
        let full = format!("{}/{}", case, kind);
        ctx.distinct(&full);
        let v = ctx.call("PoKSignature::proof_verify", &full, None, || Ok::<_, ()>(f()));
        if v.value == Some(true) {
            ctx.violation(&format!("C15:mismatch-accepted/{}", kind.split('#').next().unwrap()), json!({"case":full}));
        }
        if v.outcome.is_panic() {
            ctx.count("proof_verify_panics(counted as not verifying)", 1);
        }
    };
    // revealed attributes
    let rk: Vec<usize> = if revealed.len() <= 6 { (0..revealed.len()).collect() } else { vec![0, 4, 5, revealed.len() / 2, 62, 63, revealed.len() - 1].into_iter().filter(|k| *k < revealed.len()).collect() };
    for k in rk {
        let mut rv = revealed.clone();
        rv[k].value = Integer::from(&rv[k].value ^ 1u32);
        reject(&format!("revealed-attribute-changed#{k}"), &|| verify(&proof, &cpk, st.pk(), &bases, &rv, &u, n));
        for (nm, delta) in [("+N", st.pk().N.clone()), ("+2N", Integer::from(&st.pk().N * 2u32)), ("-N", Integer::from(-&st.pk().N)), ("+2^lm", Integer::from(1) << C::lm), ("+N^2", Integer::from(&st.pk().N * &st.pk().N))] {
            let mut rv = revealed.clone();
            rv[k].value = Integer::from(&rv[k].value + &delta);
            reject(&format!("revealed-attribute-shifted{nm}#{k}"), &|| verify(&proof, &cpk, st.pk(), &bases, &rv, &u, n));
        }
        for j2 in (k + 1..revealed.len()).take(4) {
            if revealed[k].value != revealed[j2].value {
                let mut rv = revealed.clone();
                rv.swap(k, j2);
                reject(&format!("revealed-attributes-swapped#{k}-{j2}"), &|| verify(&proof, &cpk, st.pk(), &bases, &rv, &u, n));
            }
        }
    }
    // other signer key / bases / commitment key
    let mut pk2 = st.pk().clone();
    std::mem::swap(&mut pk2.b, &mut pk2.c);
    reject("signer-key-b<->c", &|| verify(&proof, &cpk, &pk2, &bases, &revealed, &u, n));
    if let Some(o) = other {
        reject("signer-key-other", &|| verify(&proof, &cpk, o.pk(), &bases, &revealed, &u, n));
        reject("commitment-key-other-modulus", &|| verify(&proof, &o.cpk_n(n), st.pk(), &bases, &revealed, &u, n));
    }
    let b2 = zkryptium::cl03::bases::Bases::generate(st.pk(), n);
    reject("bases-other", &|| verify(&proof, &cpk, st.pk(), &b2, &revealed, &u, n));
    if n > 1 {
        let mut b3 = bases.clone();
        b3.0.rotate_left(1);
        reject("bases-rotated", &|| verify(&proof, &cpk, st.pk(), &b3, &revealed, &u, n));
        let mut c3 = cpk.clone();
        c3.g_bases.rotate_left(1);
        reject("commitment-key-bases-rotated", &|| verify(&proof, &c3, st.pk(), &bases, &revealed, &u, n));
    }
    let c2 = CL03CommitmentPublicKey::generate::<C>(Some(st.pk().N.clone()), Some(n));
    reject("commitment-key-other", &|| verify(&proof, &c2, st.pk(), &bases, &revealed, &u, n));
    let mut c4 = cpk.clone();
    c4.h = Integer::from(&c4.h * &c4.h) % &c4.N;
    reject("commitment-key-h-squared", &|| verify(&proof, &c4, st.pk(), &bases, &revealed, &u, n));
    // single-field edits of the signer key and of every base
    for (nm, f) in [("N+2", 0usize), ("b+1", 1), ("c+1", 2), ("N*3", 3)] {
        let mut k = st.pk().clone();
        match f {
            0 => k.N = Integer::from(&k.N + 2u32),
            1 => k.b = Integer::from(&k.b + 1u32),
            2 => k.c = Integer::from(&k.c + 1u32),
            _ => k.N = Integer::from(&k.N * 3u32),
        }
        reject(&format!("signer-key-field/{nm}"), &|| verify(&proof, &cpk, &k, &bases, &revealed, &u, n));
    }
    for i in 0..n.min(8) {
        let mut b4 = bases.clone();
        b4.0[i] = Integer::from(&b4.0[i] + 1u32);
        // a revealed attribute equal to 0 contributes a_i^0 = 1: its base is not part of the statement
        if !u.contains(&i) && msgs[i].value == 0 {
            ctx.count("base_edits_skipped(revealed attribute is 0)", 1);
            continue;
        }
        reject(&format!("bases-field/a_i+1#{i}"), &|| verify(&proof, &cpk, st.pk(), &b4, &revealed, &u, n));
    }
    // single-field edits of the commitment key: every field the statement involves (N, h, g_0 for the
    // range proof on e, g_i for the hidden positions), one at a time, the rest kept
    {
        let mut e = cpk.clone();
        e.N = Integer::from(&e.N + 2u32);
        reject("commitment-key-field/N+2", &|| verify(&proof, &e, st.pk(), &bases, &revealed, &u, n));
        let mut e = cpk.clone();
        e.N = Integer::from(&e.N * 3u32);
        reject("commitment-key-field/N*3", &|| verify(&proof, &e, st.pk(), &bases, &revealed, &u, n));
        if let Some(o) = other {
            let mut e = cpk.clone();
            e.N = o.cpk.N.clone();
            reject("commitment-key-field/N-of-other-key", &|| verify(&proof, &e, st.pk(), &bases, &revealed, &u, n));
            let mut e = cpk.clone();
            e.h = o.cpk.h.clone();
            reject("commitment-key-field/h-of-other-key", &|| verify(&proof, &e, st.pk(), &bases, &revealed, &u, n));
        }
        let mut e = cpk.clone();
        e.h = Integer::from(&e.h + 1u32);
        reject("commitment-key-field/h+1", &|| verify(&proof, &e, st.pk(), &bases, &revealed, &u, n));
        for i in 0..n {
            let mut e = cpk.clone();
            e.g_bases[i] = Integer::from(&e.g_bases[i] + 1u32);
            if i == 0 || u.contains(&i) {
                reject(&format!("commitment-key-field/g_i+1#{i}"), &|| verify(&proof, &e, st.pk(), &bases, &revealed, &u, n));
            } else {
                // a base of a revealed position is not part of the statement; what the verifier does is recorded only
                let v = ctx.call("PoKSignature::proof_verify", &case, None, || Ok::<_, ()>(verify(&proof, &e, st.pk(), &bases, &revealed, &u, n)));
                ctx.count(&format!("unused_commitment_base_edit_{}", if v.value == Some(true) { "accepted" } else { "rejected" }), 1);
            }
        }
    }
    // other hidden-position sets (same size: same number of revealed attributes)
    let others: Vec<Vec<usize>> = if n <= 5 {
        all_subsets(n)
    } else {
        let mut v: Vec<Vec<usize>> = vec![vec![], vec![0], vec![n - 1]];
        for k in 0..u.len() {
            for delta in [1usize, 64] {
                let mut x = u.clone();
                x[k] = (x[k] + delta) % n;
                x.sort();
                x.dedup();
                v.push(x);
            }
        }
        if !u.is_empty() {
            v.push(u[..u.len() - 1].to_vec());
        }
        v
    };
    for u2 in others {
        if u2 != u {
            let rev2: Vec<CL03Message> = if u2.len() == u.len() { revealed.clone() } else { (0..n).filter(|i| !u2.contains(i)).map(|i| msgs[i].clone()).collect() };
            reject(&format!("hidden-set-other#{:?}", u2), &|| verify(&proof, &cpk, st.pk(), &bases, &rev2, &u2, n));
        }
    }
    // other attribute counts
    for n2 in [n + 1, n.saturating_sub(1)] {
        // (an extra attribute equal to 0, or a dropped attribute equal to 0, contributes a^0 = 1: the statement
        // is then the same one and is legitimately accepted; only non-zero differences are asserted)
        if n2 != n && n2 <= st.bases.0.len() && n2 >= u.iter().max().map(|m| m + 1).unwrap_or(0) && (n2 > n || msgs[n - 1].value != 0) && n2 > 0 {
            let rev2: Vec<CL03Message> = (0..n2).filter(|i| !u.contains(i)).map(|i| msgs.get(i).cloned().unwrap_or(CL03Message::new(Integer::from(5)))).collect();
            reject(&format!("attribute-count#{n2}"), &|| verify(&proof, &st.cpk_n(n2), st.pk(), &st.bases_n(n2), &rev2, &u, n2));
        }
    }
    // attribute count edited upwards while everything else stays as it was (the verifier's bases and commitment
    // key have room for more attributes than the credential has)
    for extra in [1usize, 2] {
        let n2 = n + extra;
        if n2 <= st.bases.0.len() && n2 <= st.cpk.g_bases.len() {
            reject(&format!("attribute-count-up-same-lists#{n2}"), &|| verify(&proof, &st.cpk_n(n2), st.pk(), &st.bases_n(n2), &revealed, &u, n2));
            reject(&format!("attribute-count-up-exact-key#{n2}"), &|| verify(&proof, &cpk, st.pk(), &bases, &revealed, &u, n2));
        }
    }
    // a proof for another signature / other messages
    {
        let mut m2 = msgs.clone();
        m2[0].value = Integer::from(&m2[0].value ^ 2u32);
        let sig2 = Signature::<CL03<C>>::sign_multiattr(st.pk(), st.sk(), &bases, &m2);
        let p2 = Pok::<C>::proof_gen(sig2.cl03Signature(), &cpk, st.pk(), &bases, &m2, &u);
        if !u.contains(&0) {
            reject("proof-of-other-signature", &|| verify(&p2, &cpk, st.pk(), &bases, &revealed, &u, n));
        }
        // proof generated from a signature that does not match the messages must not verify
        let p3 = ctx.call("PoKSignature::proof_gen", &case, None, || Ok::<_, ()>(Pok::<C>::proof_gen(sig.cl03Signature(), &cpk, st.pk(), &bases, &m2, &u))).value;
        if let Some(p3) = p3 {
            let rev3: Vec<CL03Message> = (0..n).filter(|i| !u.contains(i)).map(|i| m2[i].clone()).collect();
            reject("proof-from-mismatching-signature", &|| verify(&p3, &cpk, st.pk(), &bases, &rev3, &u, n));
        }
    }
    // field-wise edits of the serialized proof
    if tamper {
        let variants = tampered_variants_mod(&j, r, ctx.t(70, 500), Some(&st.pk().N));
        ctx.count("proof_leaves", leaves(&j).len() as u64);
        ctx.count("proof_tampered_variants", variants.len() as u64);
        par_for_each(&variants, 8, |(kind, path, j2): &(String, String, Value)| {
            let cls = path_class(path);
            let full = format!("{}/tamper/{}/{}", case, kind, path);
            ctx.distinct(&format!("{}/tamper/{}/{}", C::NAME, kind, cls));
            let Ok(p2) = serde_json::from_value::<Pok<C>>(j2.clone()) else {
                ctx.count("tampered_json_not_deserializable", 1);
                return;
            };
            let v = ctx.call("PoKSignature::proof_verify", &full, None, || Ok::<_, ()>(verify(&p2, &cpk, st.pk(), &bases, &revealed, &u, n)));
            if v.value == Some(true) {
                ctx.violation(&format!("C15:tampered-proof-accepted/{}", cls), json!({"case":full,"edit":kind,"leaf":path}));
            }
        });
    }
    ctx.sample(json!({"case":case,"hidden":u,"n":n,"proof_verify":true,"integer_leaves":leaves(&j).len(),"tampered":tamper}));
}

fn run<C: Cs>(ctx: &Ctx, idx: u64, nmax: usize) {
    let mut r = ctx.rng("c15", idx);
    let Some(st) = Setup::<C>::new(ctx, nmax + 2) else {
        ctx.inconclusive("C15: key generation panicked (C18's business)");
        return;
    };
    let other = Setup::<C>::new(ctx, nmax + 1);
    // many attributes, hidden positions deep in the vector
    if idx == 0 || idx == 200 {
        if let Some(stb) = Setup::<C>::new(ctx, 71) {
            one::<C>(ctx, &stb, other.as_ref(), &mut r, 70, vec![5, 64], false);
            one::<C>(ctx, &stb, other.as_ref(), &mut r, 33, vec![32], true);
            ctx.count("large_attribute_count_proofs", 2);
        }
    }
    for n in 1..=nmax {
        for (k, u) in all_subsets(n).into_iter().enumerate() {
            let tamper = (n == 2 && u == vec![1]) || (n == 3 && u == vec![0, 2]) || (n == 1 && u.is_empty()) || (!ctx.quick() && k % 4 == 1);
            one::<C>(ctx, &st, other.as_ref(), &mut r, n, u, tamper);
        }
    }
}

/// volume: many honest proofs of one small statement (both attributes hidden: 6 same-secret challenges and 6 larger-interval
/// challenges per proof). A verifier that mishandles one challenge shape in a few hundred rejects some of them.
fn volume<C: Cs>(ctx: &Ctx, idx: u64, count: usize) {
    let mut r = ctx.rng("c15v", idx);
    let n = 2usize;
    let Some(st) = Setup::<C>::new(ctx, n) else {
        ctx.inconclusive("C15: key generation panicked (C18's business)");
        return;
    };
    let (bases, cpk) = (st.bases_n(n), st.cpk_n(n));
    let msgs = attributes::<C>(&mut r, n, 0);
    let sig = Signature::<CL03<C>>::sign_multiattr(st.pk(), st.sk(), &bases, &msgs);
    let u = vec![0usize, 1];
    let items: Vec<usize> = (0..count).collect();
    let case = format!("{}/volume/n2/U=[0,1]", C::NAME);
    ctx.distinct(&case);
    par_for_each(&items, 16, |_k| {
        let Some(p) = ctx.call("PoKSignature::proof_gen", &case, None, || Ok::<_, ()>(Pok::<C>::proof_gen(sig.cl03Signature(), &cpk, st.pk(), &bases, &msgs, &u))).value else {
            ctx.violation("C15:proof_gen-panicked", json!({"case":case}));
            return;
        };
        let v = ctx.call("PoKSignature::proof_verify", &case, None, || Ok::<_, ()>(p.proof_verify(&cpk, st.pk(), &bases, &[], &u, n)));
        if v.value != Some(true) {
            let j = serde_json::to_value(&p).unwrap();
            let ch: Vec<u32> = leaves(&j).iter().filter(|(p, _)| p.ends_with("/challenge") || p.ends_with("/C")).map(|(_, v)| v.significant_bits()).collect();
            ctx.violation("C15:honest-proof-rejected", json!({"case":case,"outcome":format!("{:?}/{}", v.value, v.outcome.short()),"challenge_bit_lengths":ch}));
        }
        ctx.count("volume_proofs_verified", 1);
    });
}

pub fn scenarios(ctx: &Ctx) -> Vec<Scenario> {
    use zkryptium::cl03::ciphersuites::{CL1024Sha256, CL2048Sha256};
    let mut v = Vec::new();
    let nmax = ctx.t(3usize, 5usize);
    if !ctx.quick() {
        v.push(scenario("CL2048", move |c| run::<CL2048Sha256>(c, 200, 2)));
    }
    for i in 0..ctx.t(1u64, 3u64) {
        v.push(scenario("CL1024", move |c| run::<CL1024Sha256>(c, i, nmax)));
    }
    let count = ctx.t(250usize, 2500usize);
    v.push(scenario("CL1024/volume", move |c| volume::<CL1024Sha256>(c, 800, count)));
    v
}

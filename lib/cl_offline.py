"""Independent offline checkers for CL03 artefacts (Python ints only; no GMP, no zkryptium code)."""
import random

_SMALL = [2, 3, 5, 7, 11, 13, 17, 19, 23, 29, 31, 37, 41, 43, 47, 53, 59, 61, 67, 71, 73, 79, 83, 89, 97]


def is_probable_prime(n, rounds=40, rng=None):
    """Miller-Rabin with `rounds` random bases (error < 4^-rounds for composites)."""
    if n < 2:
        return False
    for p in _SMALL:
        if n == p:
            return True
        if n % p == 0:
            return False
    d, s = n - 1, 0
    while d % 2 == 0:
        d //= 2
        s += 1
    rng = rng or random.Random(n & 0xFFFFFFFF)
    for _ in range(rounds):
        a = rng.randrange(2, n - 1)
        x = pow(a, d, n)
        if x in (1, n - 1):
            continue
        for _ in range(s - 1):
            x = x * x % n
            if x == n - 1:
                break
        else:
            return False
    return True


def gcd(a, b):
    while b:
        a, b = b, a % b
    return a


def is_qr_mod_prime(x, p):
    """Euler criterion."""
    return pow(x % p, (p - 1) // 2, p) == 1


def jacobi(a, n):
    a %= n
    r = 1
    while a:
        while a % 2 == 0:
            a //= 2
            if n % 8 in (3, 5):
                r = -r
        a, n = n, a
        if a % 4 == 3 and n % 4 == 3:
            r = -r
        a %= n
    return r if n == 1 else 0


def check_key_record(rec):
    """Returns a list of (signature, detail) violations for one recorded key pair."""
    bad = []
    H = lambda s: int(s, 16)
    N, p, q = H(rec["N"]), H(rec["p"]), H(rec["q"])
    sp = rec["secparam"]
    if N != p * q:
        bad.append(("C18:modulus-not-p*q", {}))
    if p == q:
        bad.append(("C18:p-equals-q", {}))
    for nm, x in (("p", p), ("q", q)):
        if not is_probable_prime(x):
            bad.append((f"C18:{nm}-not-prime", {}))
        if not is_probable_prime((x - 1) // 2) or x % 2 == 0:
            bad.append((f"C18:{nm}-not-a-safe-prime", {}))
        if x.bit_length() != sp + 1:
            bad.append((f"C18:{nm}-wrong-size", {"bits": x.bit_length(), "expected": sp + 1}))
    pp, qq = (p - 1) // 2, (q - 1) // 2

    def elem(nm, x, in_h_subgroup_of=None):
        if not (1 < x < N):
            bad.append((f"C18:{nm}-out-of-range", {"value": hex(x)[:40]}))
            return
        if gcd(x, N) != 1:
            bad.append((f"C18:{nm}-not-coprime", {}))
            return
        if not (is_qr_mod_prime(x, p) and is_qr_mod_prime(x, q)):
            bad.append((f"C18:{nm}-not-a-quadratic-residue", {}))

    elem("b", H(rec["b"]))
    elem("c", H(rec["c"]))
    for i, a in enumerate(rec["a_bases"]):
        elem("a_i", H(a))
    ck = rec["cpk_issuer"]
    h = H(ck["h"])
    elem("h", h)
    # h generates QR_N (order p'q'): then every quadratic residue lies in <h>
    if pow(h, pp, N) == 1 or pow(h, qq, N) == 1:
        bad.append(("C18:h-does-not-generate-QR_N", {}))
    for g in ck["g"]:
        elem("g_i", H(g))
    if "cpk_own" in rec:
        # factorisation discarded by the API: only range, gcd and Jacobi symbol are checkable
        o = rec["cpk_own"]
        No = H(o["N"])
        if No.bit_length() not in (2 * sp + 1, 2 * sp + 2) or is_probable_prime(No):
            bad.append(("C18:own-modulus-wrong-size-or-prime", {"bits": No.bit_length()}))
        for nm, x in [("h", H(o["h"]))] + [("g_i", H(g)) for g in o["g"]]:
            if not (1 < x < No) or gcd(x, No) != 1 or jacobi(x, No) != 1:
                bad.append((f"C18:own-modulus-{nm}-ill-formed", {}))
    return bad

"""check driver: build harness against /repo's working tree, run the monitor, classify, write evidence."""
import hashlib
import json
import os
import subprocess
import sys
import time

import props as P

VERIF = os.path.dirname(os.path.dirname(os.path.abspath(__file__)))
REPO = os.environ.get("VERIF_REPO", "/repo")
TARGET = os.path.join(VERIF, "target")
GMP_CACHE = os.path.join(VERIF, ".cache", "gmp")


def env_for(harness):
    e = dict(os.environ)
    e["CARGO_NET_OFFLINE"] = "true"
    e.setdefault("CARGO_TERM_COLOR", "never")
    if harness == "cl":
        e["CONFIG_SITE"] = os.path.join(VERIF, "tools", "gmp.site")
        e["M4"] = "true"
        e["CARGO_FEATURE_C_NO_TESTS"] = "1"
        e["GMP_MPFR_SYS_CACHE"] = GMP_CACHE
    return e


def build(harness, profile):
    """cargo build of the harness crate (path dependency on /repo => rebuilds what changed)."""
    hdir = os.path.join(VERIF, "harness", harness)
    lock = os.path.join(hdir, "Cargo.lock")
    if not os.path.exists(lock):
        import shutil
        shutil.copy(os.path.join(REPO, "Cargo.lock"), lock)
    cmd = ["cargo", "build", "--offline", "--profile", profile]
    t0 = time.time()
    r = subprocess.run(cmd, cwd=hdir, env=env_for(harness), stdout=subprocess.PIPE,
                       stderr=subprocess.STDOUT, text=True)
    os.makedirs(os.path.join(VERIF, "logs"), exist_ok=True)
    with open(os.path.join(VERIF, "logs", f"build-{harness}-{profile}.log"), "w") as f:
        f.write(r.stdout)
    pdir = "release" if profile == "release" else profile
    return r.returncode == 0, os.path.join(TARGET, pdir, f"zkmon-{harness}"), r.stdout[-3000:], time.time() - t0


SANITIZERS = {
    "asan": {"rustflags": "-Zsanitizer=address -Cforce-frame-pointers=yes", "cargo": [], "env": {"ASAN_OPTIONS": "halt_on_error=1:abort_on_error=0:detect_leaks=1"},
             "marker": "ERROR: AddressSanitizer"},
    "tsan": {"rustflags": "-Zsanitizer=thread", "cargo": ["-Zbuild-std"], "env": {"TSAN_OPTIONS": "halt_on_error=0:exitcode=66"},
             "marker": "WARNING: ThreadSanitizer"},
}


def sanitizer_pass(pid, kind, seed):
    """Secondary layer (thorough tier): rebuild the BBS harness + /repo under a compiler sanitizer (nightly) and run the
    property's quick workload under it. Returns (status, detail, violations)."""
    import re
    cfg = SANITIZERS[kind]
    hdir = os.path.join(VERIF, "harness", "bbs")
    tdir = os.path.join(TARGET, kind)
    e = env_for("bbs")
    e["RUSTFLAGS"] = cfg["rustflags"]
    e["CARGO_TARGET_DIR"] = tdir
    cmd = ["cargo", "+nightly", "build", "--offline", "--release", "--target", "x86_64-unknown-linux-gnu"] + cfg["cargo"]
    t0 = time.time()
    r = subprocess.run(cmd, cwd=hdir, env=e, stdout=subprocess.PIPE, stderr=subprocess.STDOUT, text=True)
    with open(os.path.join(VERIF, "logs", f"build-bbs-{kind}.log"), "w") as f:
        f.write(r.stdout)
    if r.returncode != 0:
        return "inconclusive", f"{kind} build failed (see logs/build-bbs-{kind}.log)", []
    binary = os.path.join(tdir, "x86_64-unknown-linux-gnu", "release", "zkmon-bbs")
    out = os.path.join(VERIF, "logs", f"{pid}.{kind}.result.json")
    errp = os.path.join(VERIF, "logs", f"{pid}.{kind}.stderr")
    e2 = env_for("bbs")
    e2.update(cfg["env"])
    if os.path.exists(out):
        os.remove(out)
    try:
        with open(errp, "w") as ef:
            rr = subprocess.run([binary, pid, "--tier", "quick", "--seed", str(seed), "--out", out, "--repo", REPO],
                                cwd=VERIF, env=e2, stdout=subprocess.PIPE, stderr=ef, text=True, timeout=3600)
    except subprocess.TimeoutExpired:
        return "inconclusive", f"{kind} run exceeded the watchdog", []
    txt = open(errp, errors="replace").read()
    blocks = txt.split(cfg["marker"])[1:]
    viols, seen = [], set()
    for b in blocks:
        m = re.search(r"(/repo/src/[^\s:]+):(\d+)", b)
        frame = m.group(1) if m else "no-in-repo-frame"
        toks = b.strip().lstrip(":").split()
        kindname = toks[0].rstrip(":") if toks else "report"
        sig = f"{pid}:{kind}:{kindname}@{frame}"
        if sig not in seen:
            seen.add(sig)
            viols.append({"signature": sig, "scenario": None, "detail": {"report": (cfg["marker"] + b)[:3000], "stderr_log": errp}})
    events = None
    if os.path.exists(out):
        try:
            events = json.load(open(out)).get("events")
        except Exception:
            pass
    if not viols and rr.returncode != 0:
        return "inconclusive", f"{kind} run exited {rr.returncode} without a sanitizer report", []
    return ("violated" if viols else "silent"), {"reports": len(blocks), "events_under_sanitizer": events,
                                                "build_s": round(time.time() - t0, 1)}, viols


def load_known():
    p = os.path.join(VERIF, "KNOWN_FINDINGS.json")
    if not os.path.exists(p):
        return []
    return json.load(open(p)).get("known_findings", [])


def write_evidence(pid, tier, seed, res, wall, nviol, extra_cov=None, inconclusive=None):
    meta = P.PROPS[pid]
    cov = {
        "evaluations": int(res.get("events", 0)),
        "distinct_nontrivial": int(res.get("distinct_nontrivial", 0)),
        "rule": meta["rule"],
        "samples": res.get("samples", []),
        "ops": res.get("ops", {}),
        "outcomes": res.get("outcomes", {}),
        "counters": res.get("counters", {}),
        "rng_draws_observed": res.get("rng_draws_observed", 0),
        "exhaustive": False,
        "exhaustive_subspaces": meta.get("exhaustive_subspaces", []),
        "inconclusive": inconclusive or res.get("inconclusive", []),
    }
    cov.update(res.get("extra", {}))
    if extra_cov:
        cov.update(extra_cov)
    ev = {
        "property_id": pid,
        "tier": tier,
        "seed": seed,
        "level": "exploration",
        "coverage": cov,
        "assumptions": meta["assumptions"],
        "wall_s": round(wall, 2),
        "violations": nviol,
    }
    os.makedirs(os.path.join(VERIF, "evidence"), exist_ok=True)
    with open(os.path.join(VERIF, "evidence", f"{pid}.json"), "w") as f:
        json.dump(ev, f, indent=1)


def inconclusive(pid, tier, seed, reason, res=None, wall=0.0):
    print(f"INCONCLUSIVE property={pid} reason={reason}")
    res = res or {}
    # evidence must stay schema-valid even when nothing was observed: say so explicitly
    try:
        write_evidence(pid, tier, seed, res, wall, 0, inconclusive=[reason])
    except Exception:
        pass
    return 3


def report_violations(pid, tier, seed, new):
    os.makedirs(os.path.join(VERIF, "replays"), exist_ok=True)
    seen = set()
    for v in new:
        if v["signature"] in seen:
            continue
        seen.add(v["signature"])
        h = hashlib.sha256(json.dumps(v, sort_keys=True).encode()).hexdigest()[:12]
        path = os.path.join("replays", f"{pid}-{h}.json")
        with open(os.path.join(VERIF, path), "w") as f:
            json.dump({"property": pid, "tier": tier, "seed": seed, "scenario": v.get("scenario"),
                       "scenario_name": v.get("scenario_name"), "signature": v["signature"],
                       "detail": v.get("detail")}, f, indent=1)
        print(f"VIOLATION property={pid} replay={path} signature={v['signature']}")
    return 1


def salvage_violations(pid, tag=""):
    """violation events the worker streamed to its event log before it stopped"""
    log = os.path.join(VERIF, "logs", f"{pid}{tag}.events.jsonl")
    out, seen = [], set()
    try:
        with open(log, errors="replace") as f:
            for line in f:
                if '"ev":"violation"' not in line:
                    continue
                try:
                    ev = json.loads(line)
                except ValueError:
                    continue
                if ev.get("signature") and ev["signature"] not in seen:
                    seen.add(ev["signature"])
                    out.append({"signature": ev["signature"], "scenario": ev.get("scn"), "scenario_name": None,
                                "detail": {"salvaged_from_event_log": True}})
    except OSError:
        pass
    return out


def run_harness(binary, pid, tier, seed, harness, extra_args=(), timeout=None, tag=""):
    os.makedirs(os.path.join(VERIF, "logs"), exist_ok=True)
    out = os.path.join(VERIF, "logs", f"{pid}{tag}.result.json")
    log = os.path.join(VERIF, "logs", f"{pid}{tag}.events.jsonl")
    if os.path.exists(out):
        os.remove(out)
    cmd = [binary, pid, "--tier", tier, "--seed", str(seed), "--out", out, "--log", log,
           "--repo", REPO] + list(extra_args)
    t0 = time.time()
    try:
        r = subprocess.run(cmd, cwd=VERIF, env=env_for(harness), stdout=subprocess.PIPE,
                           stderr=subprocess.PIPE, text=True, timeout=timeout)
    except subprocess.TimeoutExpired:
        return None, f"watchdog: harness exceeded {timeout}s", time.time() - t0
    wall = time.time() - t0
    if r.returncode != 0 or not os.path.exists(out):
        return None, f"harness exit {r.returncode}: {r.stderr[-600:]!r}", wall
    return json.load(open(out)), None, wall


def main(argv):
    if not argv:
        print(__doc__)
        return 2
    pid = argv[0]
    if pid not in P.PROPS:
        print(f"unknown property {pid}")
        return 2
    tier = os.environ.get("VERIF_TIER", "quick")
    replay = None
    i = 1
    while i < len(argv):
        if argv[i] == "--tier":
            tier = argv[i + 1]; i += 2
        elif argv[i] == "--replay":
            replay = argv[i + 1]; i += 2
        else:
            i += 1
    if tier not in ("quick", "thorough"):
        tier = "quick"
    try:
        seed = int(os.environ.get("VERIF_SEED", "1"))
    except ValueError:
        seed = 1
    meta = P.PROPS[pid]
    extra_args = []
    if replay:
        rp = json.load(open(replay))
        seed, tier = rp["seed"], rp["tier"]
        extra_args = ["--only-scenario", str(rp["scenario"])]

    t_start = time.time()
    ok, binary, tail, bt = build(meta["harness"], meta.get("profile", "release"))
    if not ok:
        return inconclusive(pid, tier, seed, "harness does not build against the current tree (see logs/build-*.log): " + tail[-300:].replace("\n", " | "))

    hook = getattr(P, "pre_" + pid, None)
    timeout = meta["timeout"][0 if tier == "quick" else 1]
    res, err, wall = run_harness(binary, pid, tier, seed, meta["harness"], extra_args, timeout)
    if res is None:
        # a dead worker is only a violation for C08 (and only if the single case reproduces it)
        post_dead = getattr(P, "dead_" + pid, None)
        if post_dead and not replay:
            return post_dead(sys.modules[__name__], pid, tier, seed, binary, err)
        # the worker did not finish (watchdog / crash): violations it had already observed and streamed to the
        # event log still count; the unfinished rest is inconclusive
        salvaged = salvage_violations(pid)
        known = load_known()
        salvaged = [v for v in salvaged if not any(k["property"] == pid and k["signature"] == v["signature"] for k in known)]
        if salvaged:
            print(f"NOTE worker did not finish ({err}); reporting the violations it had streamed to logs/{pid}.events.jsonl")
            try:
                write_evidence(pid, tier, seed, {"violations": salvaged}, wall, len(salvaged), inconclusive=[err])
            except Exception:
                pass
            return report_violations(pid, tier, seed, salvaged)
        return inconclusive(pid, tier, seed, err, wall=wall)

    # property-specific offline checkers over the recorded history
    post = getattr(P, "post_" + pid, None)
    if post:
        post(sys.modules[__name__], res, binary, tier, seed)

    san_note = None
    if tier == "thorough" and not replay and meta.get("sanitizer"):
        st, detail, sv = sanitizer_pass(pid, meta["sanitizer"], seed)
        res.setdefault("extra", {})["sanitizer_layer"] = {"tool": meta["sanitizer"], "status": st, "detail": detail}
        res.setdefault("violations", []).extend(sv)
        if st == "inconclusive":
            san_note = f"sanitizer layer ({meta['sanitizer']}) inconclusive: {detail} - the monitor verdict stands alone"
            print("NOTE " + san_note)

    known = load_known()
    viols = res.get("violations", [])
    new, matched = [], {}
    for v in viols:
        k = next((k for k in known if k["property"] == pid and k["signature"] == v["signature"]), None)
        if k:
            matched.setdefault(k["signature"], k)
        else:
            new.append(v)
    for sig, k in sorted(matched.items()):
        print(f"KNOWN-FINDING: property={pid} {k['what']} [signature={sig}]")

    inc = list(res.get("inconclusive", []))
    if not replay:
        minimum = meta["min_events"][0 if tier == "quick" else 1]
        if res.get("events", 0) < minimum:
            inc.append(f"only {res.get('events', 0)} monitored events (< declared minimum {minimum})")
        if not res.get("samples"):
            inc.append("harness recorded no sample case")
        for key, mn in meta.get("min_counters", {}).items():
            if res.get("counters", {}).get(key, 0) < mn:
                inc.append(f"counter {key}={res.get('counters', {}).get(key, 0)} < {mn}: sub-workload observed nothing")

    total_wall = time.time() - t_start
    extra_cov = {"known_findings_matched": sorted(matched.keys()), "build_s": round(bt, 1)}
    if not replay:
        write_evidence(pid, tier, seed, res, total_wall, len(new), extra_cov, inc)

    print(f"[{pid}] tier={tier} seed={seed} events={res.get('events')} distinct={res.get('distinct_nontrivial')} "
          f"violations={len(new)} known={len(matched)} inconclusive={len(inc)} wall={total_wall:.1f}s")
    if new:
        return report_violations(pid, tier, seed, new)
    if inc:
        print(f"INCONCLUSIVE property={pid} reason={inc[0]}")
        return 3
    return 0

"""Per-property metadata for the check driver (rule text, assumptions, budgets)."""

BBS_BASE = [
    "trusted base shared with the code under test: group law, pairing and hash_to_curve of bls12_381_plus, sha2/sha3",
    "verdict covers only the executions produced by this run (see coverage); inputs not generated are not judged",
]
CL_BASE = [
    "trusted base: GMP via rug (pure-C build, DESIGN.md section 2), sha2",
    "verdict covers only the executions produced by this run (see coverage); inputs not generated are not judged",
]

PROPS = {}


def prop(pid, harness, rule, assumptions, min_events, timeout, profile="release", **kw):
    d = dict(harness=harness, rule=rule, assumptions=assumptions, min_events=min_events,
             timeout=timeout, profile=profile)
    d.update(kw)
    PROPS[pid] = d


prop("C01", "bbs",
     "one case = (suite, L, header class, message-content class, oversized-message size) with a key pair from the "
     "real KeyGen on seeded key material; each case runs sign, verify, to_bytes/from_bytes, verify of the decoded "
     "signature, and the None/empty equivalences. distinct_nontrivial counts distinct case tuples (all are "
     "non-trivial: every case signs and verifies)."
     " Before each case the thread runs a history warm-up (other sizes / interfaces); after signing, a NEWLY SPAWNED thread "
     "signs again (bytes must be identical) and verifies the signature (fresh-thread oracle).",
     BBS_BASE, (800, 3000), (600, 3600),
     exhaustive_subspaces=["L in 0..=3 x 6 header classes x 6 message classes x 2 suites"])

prop("C02", "bbs",
     "one case = (suite, L, header class, edit kind, edited position). Honest (sk, header, msgs, sig) from the real "
     "sign; every edit is applied alone and presented to from_bytes + verify; oracle: never Ok (decode Err counts). "
     "Edits: per-message bit flip / empty / extend / delete / insert / insert-empty / duplicate, swaps of distinct "
     "messages (all pairs for L<=8), rotation, every proper prefix (L<=16), 1-3 appended messages, appended empty message, "
     "header bit flip / truncate / remove / empty / add / extend / prefix, other key, -pk, identity, G2 generator, 2*pk, "
     "signature bit flips (all 640 for selected honest tuples, else 24 sampled), other suite's verifier on the same key, "
     "blind_sign<->verify and sign<->verify_blind_sign. Trivial edits (edited vector equals the signed one, e.g. swapping "
     "equal messages) are detected by value, skipped and not counted."
     " Header classes up to 70000 B; header replaced by a digest of itself (SHA-256, hash_to_scalar under three DSTs, "
     "expand_message); each scenario first signs / verifies lists of other sizes with the same key on the same thread.",
     BBS_BASE + ["an accepted edit would be a defect or a hash collision (p < 2^-250): no false alarms"],
     (5000, 60000), (900, 7200),
     exhaustive_subspaces=["all 640 single-bit flips of the signature for selected honest tuples",
                           "all message positions for L<=40, all swaps for L<=8, all proper prefixes for L<=16"])

prop("C03", "bbs",
     "one case = (suite, L, disclosed set, header class, ph class). For each honest signature every listed disclosure set "
     "runs proof_gen (production randomness; the hook must see exactly 5+U draws), length check 272+32U, proof_verify, "
     "to_bytes/from_bytes equality and proof_verify of the decoded proof; None/empty argument variants alternate. "
     "All 2^L subsets for small L, structured + random subsets for large L. Every case is non-trivial."
     " A quarter of the subsets (and every all-disclosed proof) additionally goes through serde_json and is verified after "
     "decoding; a quarter is verified on a freshly spawned thread; history warm-up before each signature.",
     BBS_BASE, (3000, 20000), (900, 7200),
     exhaustive_subspaces=["all 2^L disclosure sets for L = 0..=8 (quick) / 0..=11 (thorough), both suites"])

prop("C04", "bbs",
     "workload A: one case = (suite, L, disclosed set, edit kind, position) on an honest proof: disclosed message altered/"
     "replaced, each disclosed index moved to every other position incl. out of range / 2^32 / usize::MAX, messages swapped, "
     "pair dropped, true hidden pair added, pair appended, count mismatches, header/ph edits and exchange, 4 foreign keys, "
     "proof bit flips (all bits for selected proofs, else 48 sampled), scalar-granular truncation / m^ removal / extension "
     "(zero, random, copy; before and after the challenge), byte-granular truncation. workload B: one case = (suite, "
     "forgery family, U, R, interface, transport): proofs assembled by the reference implementation from PUBLIC data only "
     "for a key the harness never signs with and claimed messages of its choice: Abar=Bbar=O with D=Bv or k*Bv and r3^=-c/k "
     "(T1,T2 independent of c), all-identity, D=O guesses, pairing-degenerate pairs (P1,P1), (G,G), (X,-X), single identity; "
     "each through from_bytes and through serde_json, plain and blind interface (every signer/committed split). workload C: "
     "identity injected into every subset of the three proof points of an honest proof. Oracle: never Ok."
     " Also: every whole-scalar truncation and cuts to 0/48/96/144 bytes; an index listed twice with an unsigned message; "
     "index aliases +-64, +-256, +65536; honest proofs over L = 70/33 (130/260) with deep disclosed positions; forgery family "
     "with Abar, Bbar of order 3 (outside the prime-order subgroup, c mod 3 guessed).",
     BBS_BASE + ["soundness is monitored against the listed edits and forgery families, not against every adversary",
                 "reference implementation reproduces all fixtures first (else inconclusive)"],
     (15000, 150000), (900, 7200),
     exhaustive_subspaces=["all disclosure sets for L<=4 (quick) / L<=5 (thorough)", "every single-bit flip of every octet of selected proofs",
                           "all 7 identity masks over (Abar,Bbar,D)"],
     min_counters={"proofs_with_all_bit_flips": 2})

prop("C05", "bbs",
     "one case = (suite, L, M, commitment mode, header class, signer disclosure set, committed disclosure set, ph class). "
     "Each honest run: commit (M+2 draws observed) -> to_bytes -> blind_sign -> verify_blind_sign (also after from_bytes) -> "
     "blind_proof_gen (5+U draws observed) -> length check -> blind_proof_verify directly and after from_bytes, with the "
     "signer-message count. Modes: commit(Some), commit(None) (M=0 with blind factor), no commitment at all.",
     BBS_BASE, (1500, 15000), (900, 7200),
     exhaustive_subspaces=["all (L,M) in {0..3}^2 (quick) / {0..4}^2 (thorough) with all 2^L * 2^M disclosure pairs, both suites"])

prop("C06", "bbs",
     "one case = (suite, L, M, edit kind, position). Honest blind run, then: (1) blind_sign on every single-bit flip of the "
     "commitment octets (all bits for selected runs), point-of-A+proof-of-B mixes, other-suite commitment, scalar-granular "
     "truncation/extension; (2) verify_blind_sign with every single edit of signer / committed messages (alter, remove, "
     "duplicate, insert, swap, append, move across lists), blind factor (other, zero, absent, bit flip), header, pk, "
     "signature bit flips, other suite; (3) blind_proof_verify with edits of disclosed data, every index moved everywhere, "
     "re-labelling committed<->signer (incl. wrapped indexes), the blind slot as disclosed index, L' in {0, None, L-1, L+1, "
     "n-1, n, n+1, 2^32, usize::MAX-1, usize::MAX}, ph, header, pk, proof bit flips. Oracle: never Ok (a panic counts as "
     "not accepted here and is C08's business)."
     " Also: every whole-scalar truncation down to the bare point; identity / Q2 / last generator / negated point with honest, "
     "random and zero scalars; a commitment shifted by an order-3 point with the challenge ground to c = 1 mod 3; shapes (70,2) "
     "((2,70), (130,5)).",
     BBS_BASE, (8000, 60000), (900, 7200),
     exhaustive_subspaces=["every single-bit flip of the commitment-with-proof octets for selected honest runs"],
     min_counters={"commitments_with_all_bit_flips": 2})

prop("C07", "bbs",
     "one case = one generation event (operation, suite, input class, thread, repetition): proof / blind proof / commitment "
     "generated repeatedly from IDENTICAL inputs in one thread, on 16 barrier-released threads, with mixed inputs, plus "
     "KeyPair::random, BlindFactor::random, generate_random_secret; the same fixed workload again in 4 (quick) / 12 "
     "(thorough) independent processes. Oracles over the whole history: every production-RNG draw (hook) non-zero; every "
     "derived scalar (r1, r2, e~, r1~, r3~, m~_j, blind, s~, cm~_j, sk, ikm halves) and every point (Abar, Bbar, D, C) "
     "pairwise distinct across threads and processes; draw count per operation exact (5+U / M+2 / 1); boundary "
     "recomputation e~ = e^ - e*c, m~ = m^ - m*c, s~ = s^ - blind*c must equal the logged draws of that call; two-transcript "
     "extraction on every pair of transcripts of the same signature must not return e / a hidden message / the blind; no "
     "32/48-byte window (octets and JSON) equals a hidden scalar, e, the blind factor or A; bias screen on raw draws (7 sigma).",
     BBS_BASE + ["a predictable but non-repeating, well-distributed generator is indistinguishable for this monitor"],
     (2000, 8000), (600, 3600), sanitizer="tsan")

prop("C08", "bbs",
     "one case = (entry point, content class, length / list class / count). Every call runs under catch_unwind in a build "
     "with overflow-checks and debug-assertions on (cargo profile `checked`), with generator fuel 64 + 4*units armed (hook) "
     "and a per-thread counting allocator; units = input bytes/32 + list elements (+ n/4 for update_signature). Oracle: "
     "outcome is Ok or Err; no fuel exhaustion; peak allocation <= 256 KiB + 4 KiB*units + 64*input bytes. Workloads: "
     "A every length 0..=1024 x 11 content classes (zeros, 0xff, random, honest encoding resized with zero / random padding, "
     "tiled valid elements, flag bytes 0x80/0xa0/0xc0/0xe0, infinity) for PublicKey/SecretKey/PoKSignature/ZKPoK/Commitment "
     "::from_bytes; F fixed-size decoders (Signature, BlindSignature, BlindFactor, message scalar, public-key coordinates); "
     "B serde_json decoding of 7 types on truncated / substituted / type-confused / huge / deeply nested / random text; "
     "C verify, verify_blind_sign, proof_gen, proof_verify, blind_proof_gen, blind_proof_verify with 13 hostile index-list "
     "classes x message-count classes x L in {None,0,1,L,n-1,n,n+1,n-2,2^20,2^40,usize::MAX-1,usize::MAX}, signatures as "
     "arbitrary octets; D blind_sign and deserialize_and_validate_commit with commitment octets of every length x generator "
     "sets of 0,1,M,M+1,M+2 points; E update_signature with n in 0..=20(64),100,255,256,1000,4096,usize::MAX x positions. "
     "A worker death (abort, stack overflow, OOM) is attributed to its last logged call and is a violation only if the "
     "scenario dies again when re-run alone; otherwise inconclusive. Wall-clock never decides.",
     BBS_BASE + ["update_signature's explicit count n is a legitimate size parameter: deriving H_i is Theta(i), so n is only "
                 "swept up to 4096 plus the overflow boundary"],
     (40000, 150000), (1800, 10800), profile="checked", sanitizer="asan",
     exhaustive_subspaces=["every input length 0..=1024 for the five variable-length decoders and for blind_sign"])

prop("C09", "bbs",
     "one case = (suite, codec, mutation kind, position). Codecs: PublicKey, SecretKey, Signature, BlindSignature, PoKSignature, "
     "Commitment, ZKPoK, BlindFactor, message scalar (octets) and public-key coordinates. Candidates: honest encodings, ALL their "
     "single-bit flips, extensions (zero/random) and truncations by 1..=64 bytes, empty input, per scalar slot {0, r-1, r, r+1, 2r, "
     "2^256-1}, per point slot {compression flag cleared, sort flag flipped, infinity, infinity+sort flag, infinity+non-zero body, "
     "honest+infinity flag, x=p, x=p+x_small, all-ones, off-curve x, on-curve points OUTSIDE the prime-order subgroup (found by "
     "search)}, uncompressed-coordinate analogues. Oracle: decode(b)=Ok(x) implies encode(x)=b; forbidden classes (wrong length, "
     "trailing bytes, scalar>=r, off curve, non-subgroup, identity public key in both codecs, identity A / Abar / Bbar / D, e=0) must "
     "be Err. Round trips (octets, coordinates, serde_json) of API-produced objects of 12 kinds must be the identity. Commitment "
     "point, secret key and blind factor identity/zero are not in the property's list and are not asserted.",
     BBS_BASE, (15000, 90000), (600, 3600), sanitizer="asan",
     exhaustive_subspaces=["all single-bit flips of one honest encoding per codec and suite", "extensions and truncations by every length 1..=64"])

prop("C10", "bbs",
     "one case = (suite, operation, input class[, thread count]). The independent reference implementation (refimpl.rs, first "
     "required to reproduce all 256 fixture checks) runs side by side with the library. Byte equality: key_gen (ikm 0..=34,63..1000; "
     "key_info 0..70000; key_dst 0..300 incl. the refusals), sk->pk, hash_to_scalar (msg 0..=300, dst 0..1000), messages_to_scalar "
     "(list and single mapper), Generators::create (counts x 7 api ids, P1), sign (L classes x header classes up to 65536 B), "
     "blind_sign on identical commitment octets. Decision equality (both directions: library-made artefacts judged by the reference, "
     "reference-made by the library): verify, proof_verify, blind_sign/commitment validation, verify_blind_sign, blind_proof_verify "
     "on honest and mutated artefacts (bit flips, trailing/truncated bytes, identity points, scalar=r, e=0, foreign key encodings, "
     "index/message/L/header edits, re-labelling). Schedules: the same case list executed by 2/8/16 barrier-released threads in "
     "per-thread shuffled order with random 0-200us spins between calls; every output compared with the single-threaded reference "
     "result; the set of concurrently active operation-kind pairs is recorded (fewer than 20 distinct pairs => inconclusive). Zero "
     "proof response scalars are outside the decision domain."
     " Also: the signer handed a public key that does not belong to its secret key (sign, blind_sign); api ids that are not valid "
     "UTF-8; the non-canonical alias value + r of every honest scalar.",
     BBS_BASE + ["the reference shares only the curve arithmetic / hash_to_curve / hash functions with the library"],
     (5000, 40000), (900, 7200), sanitizer="tsan",
     min_counters={"concurrent_kind_pairs": 20})

prop("C11", "bbs",
     "one case = (producing suite -> consuming suite, artefact kind, target interface, split) or (suite, api id, generator index / "
     "prefix length). Replays: signature, blind signature, commitment, proof, blind proof made under one suite with the SAME secret "
     "scalar installed in both suites, presented to every other (suite, interface) verifier with the most favourable arguments: "
     "every split of the positions into signer/committed lists, blind factor none/zero/prover's; oracle: never Ok. Generators: "
     "create(n, a) for 7 api ids x 2 expanders; one global set of compressed points decides duplicate-freeness within and "
     "disjointness across all (expander, api id) sets; none is the identity, +-G1 base point or either suite's P1; "
     "create(n,a)[..k] == create(k,a) for k<=16, powers of two, n-1; None == empty api id."
     " 13 api ids incl. pairs that differ only in invalid UTF-8 bytes; the public helper prepare_parameters for api id None / "
     "empty / suite / blind / custom against the reference (generators, scalars, duplicate-freeness)."
     " Generator monitor also asks the OTHER expander for the same api id on the same thread, before and after (disjoint sets, no "
     "dependence on history). VALIDATION GRID: one honest commitment (M = 0 / 1 / 3, commit(None) included) x {own, other} expander x "
     "every generator set (13 api ids + a 252-octet one, with 0 / 2 spare generators) x every challenge api id (13 + None + ids of 200, "
     "251, 252, 255, 256, 300, 70000 octets) through deserialize_and_validate_commit: only the originating triple validates.",
     BBS_BASE, (1500, 4000), (600, 3600), min_counters={"validation_grid_own_triples_accepted": 6})

prop("C12", "bbs",
     "one case = (suite, L, header class, position, step kind). History monitor: from an honest signature, a seeded walk of updates "
     "(every position first for L<=5, then random positions; new value kinds: fresh, same as old, empty, long, two recurring values so "
     "that earlier vectors are revisited). After EVERY step: verify(current vector) = Ok; e unchanged; A equals B(msgs)/(sk+e) computed "
     "by the independent reference (path independence); verify(earlier different vectors) = Err; an update stating a wrong old value "
     "does not verify for the intended vector. Out-of-range positions {L, L+1, 2L, 2^32, usize::MAX-1, usize::MAX} and n = usize::MAX "
     "must return Err (a panic is a violation: build has overflow checks).",
     BBS_BASE, (1500, 12000), (600, 3600), profile="checked")

prop("C13", "cl",
     "one case = (CL suite, n attributes, attribute-class mix, edit kind). Keys, bases and commitment keys come from the real "
     "generators (fresh per run). Positive: sign / sign_multiattr -> verify / verify_multiattr; disclose_selectively for ALL 2^n "
     "subsets; byte and JSON round trips; e has exactly le bits and gcd(e, phi(N)) = 1 (harness knows p, q); e prime is decided "
     "offline by an independent Miller-Rabin (lib/cl_offline.py). Negative (oracle: verify = false): each attribute changed / "
     "replaced; the secret-key-free derivation (e, s, v*a_i^k) for m_i + k*e with k in {1, 2, 1024, -1, -2} (also the shifted "
     "vector with the original signature); m_i + 2^lm; negative attribute; swapped positions; dropped non-zero attribute; 18 "
     "edits of (e, s, v); reversed / other bases; other key; b<->c. Attribute classes: 0, 1, 2^lm-1, hash-derived, random."
     " Volume sweep: 800 (8000) further signatures on random vectors: verify, byte and JSON round trips, e bit length / primality.",
     CL_BASE, (2000, 6000), (900, 10800))

prop("C18", "cl",
     "one case = one generated key pair (with its bases and commitment keys) or one (random function, size class). The worker "
     "records N, p, q, b, c, a_i, h, g_i as hex; lib/cl_offline.py (Python ints, own 40-round Miller-Rabin, Euler criterion, "
     "Jacobi symbol) decides: N = p*q, p != q, p, q, (p-1)/2, (q-1)/2 prime, |p| = |q| = SECPARAM+1; b, c, a_i, h, g_i in (1, N), "
     "coprime, QR mod p and mod q; h generates QR_N (h^p' != 1 != h^q'). For a commitment key with its own modulus only size, "
     "range, gcd and Jacobi symbol +1 are checkable (factorisation is discarded by the API). In the worker: to_bytes/from_bytes "
     "and serde round trips for pk, sk, key pair, commitment key, bases, signature; random_bits(n) for n in {1,2,8,64,255,256,257,"
     "1024,1536}: exactly n bits, top bit set, no repeats for n>=64; rand_int(a,b) in [a,b] incl. a=b, negative a, both end points reachable."
     " Toy special-RSA moduli (35 .. 59701) for random_qr / Bases::generate / random_number / commitment-key generation with brute-force "
     "residue tables and <h> membership; random_prime(n) bit length and primality; encodings of keys / signatures with special-shape values.",
     CL_BASE, (1500, 6000), (900, 10800), min_counters={"key_pairs_recorded": 3})

prop("C14", "cl",
     "one case = (CL suite, n, hidden set U, with/without trusted-party commitment, edit kind / tampered field class). Fresh keys, "
     "bases and a commitment key with its own modulus from the real generators. For n = 1..=3 (quick) / 1..=5 (thorough) and ALL "
     "non-empty hidden sets U: commit_with_pk -> generate_proof -> verify_proof = true -> blind_sign returns -> unblind_sign -> "
     "verify_multiattr(full vector) = true; update_signature after changing a revealed attribute verifies on the updated vector, "
     "not on the old one (and the old signature not on the new vector). Mismatches (oracle: verify_proof != true and blind_sign "
     "does not return; its panic is the refusal): commitment to other attributes, commitment value + 1, every other hidden set, "
     "other bases, other pk, other trusted commitment; every integer leaf of the serialized ZKPoK +1 / -1 / zero and sibling "
     "swaps (every field class at least once), blind_sign attempted on a sample of tampered proofs."
     " Revealed (index, attribute) pairs are listed ascending / descending / rotated; with a trusted commitment also: proof generated "
     "without the trusted part, trusted sub-proof stripped; +N on every integer leaf; credentials with 70 / 33 attributes and deep hidden "
     "positions.",
     CL_BASE, (600, 2500), (1800, 14400),
     exhaustive_subspaces=["all non-empty hidden subsets for n = 1..=3 (quick) / 1..=5 (thorough), with and without trusted commitment"],
     min_counters={"zkpok_tampered_variants": 200})

prop("C15", "cl",
     "one case = (CL suite, n, hidden set U, edit kind / tampered field class). For n = 1..=3 / 1..=5 and ALL subsets U (incl. none "
     "and all): sign_multiattr -> proof_gen -> proof_verify = true, JSON round trip verifies. Oracle for edits: proof_verify != true "
     "(panic counts as not verifying): each revealed attribute changed / swapped, signer key (other, b<->c), bases (other, rotated), "
     "commitment key (other, rotated bases, h squared, other modulus), every other hidden set, attribute count n+-1 with a non-zero "
     "difference, proof of another signature, proof generated from a mismatching signature; every integer leaf of the serialized "
     "proof +1 / -1 / zero and sibling swaps for selected proofs. (An extra / dropped attribute equal to 0 contributes a^0 = 1 and "
     "is the same statement: not asserted.)"
     " Also: revealed attribute shifted by N, 2N, -N, N^2, 2^lm; attribute count edited upwards with the unchanged revealed list and a "
     "roomy commitment key; +N on every integer leaf; credentials with 70 / 33 attributes.",
     CL_BASE, (500, 2000), (1800, 14400),
     exhaustive_subspaces=["all hidden subsets for n = 1..=3 (quick) / 1..=5 (thorough)"],
     min_counters={"proof_tampered_variants": 200})

prop("C16", "cl",
     "one case = (CL suite, interval start class, width class, value class / edit kind / transplant variant x target). Bases (g_0, h) "
     "of a generated commitment key over the issuer modulus; a in {0, 1, 2^(le-1)+1, random 256-bit}, w in {1,2,3,4,255,256,2^64,"
     "2^256-1, 2^(le-1)-2, 2^1024-1,..}; x in {a, a+1, mid, b-1, b, random} => prove + verify = true and proof.E is the commitment; "
     "x in {a-1, b+1, a-2^20, b+2^20, a-2^300, b+2^300, 2b+1} => no accepted proof (panic or false). Honest proof against bounds "
     "a+-1 / b+-1 / shifted, swapped / other bases, h^2, other modulus => false. Transplants of the honest proof onto commitments to "
     "a-1, b+1, b+2^64, 10b, a-2^64, a random group element and the same value under other randomness, in four variants (recompute "
     "E_*_1 keeping all sub-proofs; recompute E_*_2; replace E only; recompute E_*_1 and re-point the square proofs' E) => false. "
     "Every integer leaf +1 / -1 / zero and sibling swaps for selected proofs => false. Domain 0 <= a < b."
     " Volume sweep of 1500 (12000) honest proofs on small mixed intervals (rare challenge shapes); +N, -N, +-2N and low-bit-preserving "
     "edits on every integer leaf. Lower bounds also -1, -1000, -2^64, -random (intervals below or across zero). CHEATING PROVER (hook "
     "hook_prove_with_decomposition: the library's own sub-provers, square parts and claimed larger-interval bound chosen by the monitor): "
     "for 7 intervals x 11 out-of-range targets (a-1, a-2, a-2^20, a-width, a-random64, b+1, b+2, b+2^20, b+width, 2b+1, b+random64) "
     "the proof built with square part 0 / floor sqrt and the smallest claimed bound under which the sub-prover can answer must be "
     "refused; 3 in-range controls per interval built through the same hook must verify (otherwise inconclusive).",
     CL_BASE, (1500, 6000), (1800, 14400), min_counters={"transplants": 200, "proof_tampered_variants": 100, "cheating_prover_proofs_submitted": 40, "cheating_prover_controls_accepted": 10})

prop("C17", "cl",
     "one case = one honest serialized proof (issuance ZKPoK for every non-empty hidden set, signature PoK for every hidden set, "
     "n = 1..=3 / 1..=4). The monitor plays the recipient: candidate commitment values = every integer leaf that is a residue mod N "
     "(+ the public commitment), candidate randomness rho = EVERY integer leaf of the proof, base pairs (a_i, b) and (g_i, h); for "
     "every secret x the prover holds (hidden m_i, e, s, commitment randomness r) it tests value == g^x * h^rho, with a decoy x' per "
     "secret (dictionary attack succeeds iff true value confirmed and decoy not); value * g^(-rho) == v; the whole hidden vector "
     "from multi-base commitments; and complete openings (g^leaf1 * h^leaf2 == value) made of proof fields only. A violation names "
     "the leaking (value field, randomness field) pair and the secret."
     " Also: issuance proofs with a trusted commitment and with equal hidden attributes; proofs over 70/33 (96/130) attributes; exact "
     "division of every field by c, c+-1; sibling-difference attack (s_j - s_k)/c vs m_j - m_k and equal-responses test; products / "
     "quotients of the group elements of one range proof against g^k for public functions k of the hidden value (with a decoy)."
     " Products / quotients of ANY two group elements the recipient holds against products of public bases raised to +-(hidden values). "
     "Hidden attributes take the boundary values 0, 1, 2^lm-1 in half of the proofs. SIZE CHANNEL: proofs for the candidate values 0, 18, "
     "2^65, 2^128+1, 2^lm-1 of one hidden attribute (4 / 12 proofs per candidate and proof kind); for every field the range of bit "
     "lengths per candidate; two candidates whose ranges are >= 12 bits apart are told apart by that field => violation.",
     CL_BASE + ["secrets internal to proof_gen (w, rw, rx, re) are only tested through fields of the proof itself"],
     (20, 40), (1800, 14400), min_counters={"dictionary_attacks_run": 40, "modular_exponentiations": 3000, "size_channel_proofs": 30, "size_channel_fields_compared": 50})

prop("C19", "cl",
     "one case = one honest serialized proof (as C17). For every integer leaf s, every Fiat-Shamir challenge c recomputable from "
     "public data (explicit challenge / C fields, C mod 2^t, nisp2sec challenges H(g||h||commitment||t) for every base pair, "
     "nispMultiSecrets challenges) and every other leaf s': |floor(s/c) - x| >= 2^64 and |floor(s/s') - x| >= 2^64 for every "
     "secret x the prover holds (hidden m_i, e, s, commitment randomness r) and for the values each Boudot sub-proof answers for "
     "(square roots / remainders, public functions of a known secret and the public bounds: keyed `derived-witness`); plus the "
     "attacker's inversion of Boudot's square decomposition x' = (floor(d/c)^2 + aa)/2^T resp. (bb - floor(d/c)^2)/2^T."
     " Also: trusted-commitment and equal-hidden-attribute issuance proofs, 70/33 (96/130)-attribute proofs, sibling-difference attack.",
     CL_BASE + ["with correctly sized masks (top bit forced by random_bits) the bound holds deterministically for s/c and with "
                "probability > 1 - 2^-190 for s/s': no false alarms"],
     (20, 40), (1800, 14400), min_counters={"divisions": 50000, "boudot_inversions_run": 50})


def post_C13(drv, res, binary, tier, seed):
    import cl_offline
    n = 0
    for rec in res.get("extra", {}).pop("e_values", []):
        e = int(rec["e"], 16)
        n += 1
        if not cl_offline.is_probable_prime(e):
            res["violations"].append({"signature": "C13:e-not-prime", "scenario": 0, "detail": rec})
    res.setdefault("extra", {})["e_values_checked_prime_offline"] = n


def post_C18(drv, res, binary, tier, seed):
    import cl_offline
    recs = res.get("extra", {}).pop("c18_records", [])
    for rec in recs:
        for sig, detail in cl_offline.check_key_record(rec):
            detail = dict(detail, case=rec["case"], N=rec["N"][:48] + "..")
            res["violations"].append({"signature": sig, "scenario": 0, "detail": detail})
    primes = res.get("extra", {}).pop("c18_primes", [])
    for h in primes:
        if not cl_offline.is_probable_prime(int(h, 16)):
            res["violations"].append({"signature": "C18:random_prime-not-prime", "scenario": 0, "detail": {"value": h[:64]}})
    res.setdefault("extra", {})["random_primes_checked_offline"] = len(primes)
    res.setdefault("extra", {})["keys_checked_offline"] = len(recs)
    res["extra"]["offline_checker"] = "lib/cl_offline.py (Python ints, Miller-Rabin 40 rounds, Euler criterion, Jacobi)"
    if recs:
        r0 = recs[0]
        res.setdefault("samples", []).append({"key": {k: (v[:32] + ".." if isinstance(v, str) else v) for k, v in r0.items()
                                                      if k in ("suite", "case", "N", "b", "c")}})


def dead_C08(drv, pid, tier, seed, binary, err):
    """The worker died (abort / stack overflow / OOM kill): find the last call without a ret in the flushed
    event log, re-run that scenario alone; a second death is a violation, anything else inconclusive."""
    import json as _json, os as _os
    log = _os.path.join(drv.VERIF, "logs", f"{pid}.events.jsonl")
    open_calls = {}
    try:
        for line in open(log, errors="replace"):
            try:
                e = _json.loads(line)
            except Exception:
                continue
            if e.get("ev") == "call":
                open_calls[e["n"]] = e
            elif e.get("ev") == "ret":
                open_calls.pop(e["n"], None)
    except FileNotFoundError:
        pass
    if not open_calls or "watchdog" in (err or ""):
        return drv.inconclusive(pid, tier, seed, "worker died without an attributable call: " + str(err))
    suspects = sorted(open_calls.values(), key=lambda e: -e["n"])[:16]
    for sus in suspects:
        res, err2, _ = drv.run_harness(binary, pid, tier, seed, "bbs", ["--only-scenario", str(sus["scn"])],
                                       timeout=1800, tag=".replay")
        if res is None and "watchdog" not in (err2 or ""):
            _os.makedirs(_os.path.join(drv.VERIF, "replays"), exist_ok=True)
            path = _os.path.join("replays", f"{pid}-death-scn{sus['scn']}.json")
            _json.dump({"property": pid, "tier": tier, "seed": seed, "scenario": sus["scn"], "signature":
                        f"C08:process-death/{sus['op']}", "detail": {"last_call": sus, "first_error": err, "replay_error": err2}},
                       open(_os.path.join(drv.VERIF, path), "w"), indent=1)
            print(f"VIOLATION property={pid} replay={path} signature=C08:process-death/{sus['op']}")
            drv.write_evidence(pid, tier, seed, {"events": sus["n"], "distinct_nontrivial": 2, "samples": [sus]}, 0.0, 1,
                               inconclusive=["worker died; evidence covers only the events before the death"])
            return 1
    return drv.inconclusive(pid, tier, seed, "worker died once but no scenario reproduces the death alone: " + str(err))


# ---------------------------------------------------------------- later additions to the rule texts (waves 4 and 5)
def _more(pid, text, **counters):
    PROPS[pid]["rule"] += " " + text
    if counters:
        PROPS[pid].setdefault("min_counters", {}).update(counters)


_more("C01", "VOLUME: 8 x 500 (8 x 4000) distinct signatures through the 80-byte codec (decode, equality, re-encode; every 8th "
      "verified), with the number of distinct (offset, byte) pairs seen in e as coverage of rare value shapes.",
      volume_signatures_roundtripped=2000)
_more("C02", "Header-only signatures (L = 0) are signed and verified with messages = None as well as Some(&[]) (every edit is "
      "presented in both spellings), with 6 repetitions over all header classes.")
_more("C04", "Stray 1 / 7 / 16 / 31 / 33 octets after the proof; the non-canonical words ff..ff and r appended and inserted at "
      "every 32-byte boundary of the scalar part.")
_more("C06", "Stray octets and non-canonical words (ff..ff, r) appended / inserted at every 32-byte boundary of the commitment "
      "proof; the relabelled (false) blind-proof statement also with its index list reversed / rotated.")
_more("C07", "commit(None) and commit(Some(&[])) alternate for M = 0 (zero blind / identity commitment asserted); many-hidden "
      "shapes: proofs hiding 33 / 40 / 70 / 130 messages, commitments over 33 / 70, blind proofs 20+20 and 1+66.")
_more("C08", "blind_proof_verify also with message counts that do not match the index counts (each list absent / empty / one "
      "less / one more / honest / 200 entries).")
_more("C09", "Every variable-length decoder is also fed the object in other representations (uncompressed points with / without "
      "the compression flag, doubled, zero-prefixed, reversed, hex text). VOLUME: 300 (2500) x 6 objects per scenario through "
      "the octet codecs.", objects_round_tripped=3000)
_more("C10", "Consistent disclosed (index, message) pairs reversed / rotated and one pair listed twice (the reference hashes pairs "
      "in the order supplied and counts every entry); index lists that merely violate the ascending-order precondition while "
      "stating the same true statement are not compared (DESIGN.md 11.3).")
_more("C12", "New values of 255 / 256 / 65535 / 65536 / 65537 / 131072 octets among the step kinds.")
_more("C14", "Hidden positions take the boundary values 0 / 1 / 2^lm-1; commit_with_pk runs inside a monitored call; ISSUER VIEW: "
      "verify_proof and blind_sign are also called with value-only commitments (randomness 0) and the proof after a JSON round "
      "trip, and the unblinded result must verify; -N, +-2N and low-bit-preserving edits on every field class.")
_more("C15", "Single-field edits of the signer key (N+2, N*3, b+1, c+1), of every base a_i (revealed attribute 0 excepted: a^0 = 1) "
      "and of the commitment key (N+2, N*3, N / h of another key, h+1, g_i+1 for i = 0 and hidden i; bases of revealed positions "
      "are counted, not asserted); -N, +-2N and low-bit-preserving edits (+2^64, +2^128, +2^256, top-bit flips, low 128 bits "
      "only, negation) on every field class.")
_more("C18", "Commitment keys for n_attributes = None / Some(0) / Some(1) / Some(7) and bases for n = 0 / 1 / 9: sizes as asked, "
      "well-formed, JSON round trip. A generator that does not return within 60 s on a toy modulus is inconclusive (helper "
      "thread), the rest of the workload continues; violations are streamed to the event log and reported even if the worker "
      "does not finish.")
_more("C19", "Hidden attributes take the boundary values 0, 1, 2^lm-1 in half of the proofs; small secrets (< 2^64) are tested "
      "against the challenge of their OWN sub-proof (floor(s/c) must still be >= 2^64 away, i.e. the blinding alone exceeds "
      "c * 2^64).", small_secrets_examined=1)

_more("C02", "The exponent e re-encoded as e + r.")
_more("C04", "Every scalar of the proof re-encoded as value + r.")
_more("C05", "Shapes with more than 64 positions in the blind position space: (40, 24), (2, 70), (170, 1).")
_more("C06", "Every scalar of the commitment proof re-encoded as value + r.")
_more("C07", "VOLUME: 4 x 25000 (16 x 250000) BlindFactor::random draws: none zero, none repeated.", blind_factors_in_volume=50000)
_more("C08", "Entry-point probes also over credentials with 170 (thorough: (2,170), 1400) messages.")
_more("C09", "Signature octets as an ARGUMENT of proof_gen / blind_proof_gen: trailing / leading / missing octets must be refused "
      "(control: the exact 80 octets are accepted). JSON round trips through from_str, from_value and from_reader.")
_more("C12", "32-octet update values, half of them canonical scalar encodings.")
_more("C13", "Two-field variants derivable without the key: (-e, v^-1), (-e, v^-1 - N), -e, -s; v + N and v - N are asserted (F18).")
_more("C14", "The issuer also checks every proof for the EMPTY hidden set; JSON round trips through from_str / from_value / from_reader.")
_more("C16", "Bounds swapped / point interval / negated; a proof made for the empty interval [b, a] must not verify against it.")
_more("C17", "Proofs hiding 45 (70) attributes (searches bounded by a budget that is reported). CROSS-THREAD: the same statement proved on "
      "4 threads at once under two commitment keys: no field of >= 128 bits repeats across proofs; (s - s') / (c - c') over every "
      "pair of proofs is not a secret.", cross_thread_proofs=8)
_more("C18", "JSON round trips through from_str / from_value / from_reader. The random helpers called on 6 threads at once: pooled over "
      "all threads no output of random_bits(256) / rand_int / random_number / random_qr / random_prime(128) repeats.",
      random_outputs_pooled_across_threads=1000)
_more("C19", "Proofs hiding 45 (70) attributes; lookups of quotients among the secrets by binary search over a sorted index.")

_more("C05", "More shapes at size boundaries: (1, 130), (63, 0), (64, 0), (30, 33).")
_more("C06", "PRESENCE GRID: verify_blind_sign with committed in {None, Some([]), Some(cm), Some(fake)} x blind in {None, Some(0), "
      "Some(blind), Some(random)} on the honest signature and on one issued without a commitment: only the spellings of the truth verify.",
      presence_grid_truths_accepted=4)
_more("C07", "CONCURRENT: KeyPair::random and BlindFactor::random on 16 threads at once (1200 / 8000 each per suite), pooled: no zero, "
      "no repeat.", concurrent_random_values_pooled=30000)
_more("C08", "Entry points also at exactly 63 / 64 / 128 positions and 40 + 1 + 23 = 64 (blind).")
_more("C10", "The library's own generation of the honest artefacts runs inside monitored calls: a refusal where the reference produces "
      "is a decision mismatch (library-refuses/reference-accepts/<op>); shapes with M > L: (0, 3), (1, 6).")
_more("C11", "VOLUME: 12 x 250 (2500) fresh honest proofs through the other suite's verifier, the other suite's blind interface and the "
      "own suite's blind interface.", volume_foreign_verifications=5000)
_more("C12", "Out-of-range positions and wrong n also with identical / empty old and new values; every history starts with updates under "
      "the OTHER suite on the same thread with the same recurring values.")
_more("C13", "FORGERY SEARCH without the key: v in {1, N-1, 2} with 1500 (12000) consecutive values of s.")
_more("C17", "EQUALITY PATTERNS: which pairs of large fields coincide, per candidate value; a pair coinciding in every proof of one "
      "candidate and in none of another identifies it.")
_more("C18", "random_bits also for 2049, 3073, 4095, 4096, 4097, 8192, 16385 bits.")
_more("C19", "TWO CHALLENGES: (s - s') / (c - c') over all pairs of different large fields and pairs of recomputable challenges of one "
      "proof must not be a secret (exact division; proofs with at most 260 large fields).")

_more("C01", "Key generation is a monitored call over its valid input range (key material 32..=64 octets; key_info absent / empty / "
      "1 / 17 / 255 / 256 / 300 / 65534 / 65535 octets).")
_more("C03", "Size ladder around every power of two up to 512 and around the one-call expansion limits (165 / 166 / 170 / 171, 1361 / "
      "1400 in the thorough tier); VOLUME: 8 x 300 (3000) fresh proofs of one statement generated, encoded, decoded, verified.",
      volume_proofs_verified=1500)
_more("C05", "'No commitment' spelled None and Some(&[]).")
_more("C06", "Surplus disclosed messages in either list (front / end) and messages with the index list absent.")
_more("C09", "Every whole-scalar truncation of the variable-length encodings down to nothing (a prefix that is itself a well-formed "
      "shorter object of the same type is legitimate, everything else forbidden).")
_more("C10", "The reference implements RFC 9380's oversize-DST rule; generator api ids of 236 / 237 / 300 / 5000 octets.")
_more("C11", "Every generator set (16 api ids incl. 236 / 237 / 1000 octets) is compared with the reference.")
_more("C12", "Vectors of 256 / 300 (255 / 257 / 1000) messages with updates at the far end and at positions 64, 127, 128, 253..257.")
_more("C13", "s of every issued signature has exactly ls bits; volume 3000 (12000).")
_more("C14", "Trusted-party keys with exactly n, more than n, and (whenever the last position is revealed) fewer than n bases; VOLUME: "
      "200 (2000) honest issuance proofs verified as the issuer sees them.", volume_proofs_verified=150)
_more("C15", "VOLUME: 250 (2500) honest proofs with all attributes hidden.", volume_proofs_verified=200)
_more("C16", "Cheating prover: claimed-bound ladder in steps of 2 (tightest claim under which the sub-prover terminates), 8 attempts per target.")
_more("C17", "Size channel on bare range proofs under SHA-256 / SHA-384 / SHA-512 (the range proof is generic over the hash).",
      size_channel_range_proofs=40)
_more("C18", "s and e of issued signatures have exactly ls / le bits (sign and sign_multiattr).")
_more("C19", "Presentation proofs under commitment keys with over-long moduli (N^2, N*2^700+1).")

_more("C02", "For L in 2..=12 the sequence 'smaller lists first, then this list' is also signed and verified on a newly spawned thread "
      "(all swaps of distinct messages and an extension of every message must be refused there).")


def post_C07(drv, res, binary, tier, seed):
    """Cross-process part of the history: the same fixed workload in N independent processes started
    together; every randomness-derived value must be distinct across (and within) processes."""
    import subprocess, json as _json
    nproc = 4 if tier == "quick" else 12
    procs = [subprocess.Popen([binary, "C07", "--emit"], stdout=subprocess.PIPE, stderr=subprocess.PIPE, text=True,
                              env=drv.env_for("bbs")) for _ in range(nproc)]
    seen = {}
    total = 0
    for pi, p in enumerate(procs):
        try:
            out, err = p.communicate(timeout=120)
            vals = _json.loads(out)
        except Exception as e:  # harness trouble is never a violation
            res.setdefault("inconclusive", []).append(f"C07 sub-process {pi} failed: {e}")
            continue
        if len(vals) < 20:
            res.setdefault("inconclusive", []).append(f"C07 sub-process {pi} emitted only {len(vals)} values")
        for v in vals:
            total += 1
            key = v["v"]
            if set(key) <= {"0"}:
                res["violations"].append({"signature": "C07:cross-process/zero-value", "scenario": 0,
                                          "detail": {"process": pi, "kind": v["kind"]}})
            if key in seen:
                kind = v["kind"].rstrip("0123456789").split("@")[0].split(".")[-1]
                res["violations"].append({"signature": "C07:cross-process-repeat/" + kind, "scenario": 0,
                                          "detail": {"value": key, "first": seen[key], "again": [pi, v["kind"]]}})
            else:
                seen[key] = [pi, v["kind"]]
    res.setdefault("extra", {})["cross_process"] = {"processes": nproc, "values_compared": total, "distinct": len(seen)}


NOT_CLAIMED = {}
# wave 9
_more("C04", "One of the two disclosure arguments absent (None) while the other one is not empty - forged messages without indexes, "
      "indexes without messages, the true lists one at a time, None / None for a proof that discloses something - must be refused.")
_more("C14", "Every hidden set of two or more positions is also listed descending and rotated by one (the listing order of the "
      "hidden indexes is the caller's choice); the whole issuance must still succeed.", hidden_set_listed_out_of_order=4)

"""Per-property metadata for the check driver (rule text, assumptions, budgets)."""

BBS_BASE = [
    "trusted base shared with the code under test: group law, pairing and hash_to_curve of bls12_381_plus, sha2/sha3",
    "verdict covers only the executions produced by this run (see coverage); inputs not generated are not judged",
]
CL_BASE = [
    "trusted base: GMP via rug (pure-C build, DESIGN.md section 2), sha2",
    "verdict covers only the executions produced by this run (see coverage); inputs not generated are not judged",
]

PROPS = {}


def prop(pid, harness, rule, assumptions, min_events, timeout, profile="release", **kw):
    d = dict(harness=harness, rule=rule, assumptions=assumptions, min_events=min_events,
             timeout=timeout, profile=profile)
    d.update(kw)
    PROPS[pid] = d


prop("C01", "bbs",
     "one case = (suite, L, header class, message-content class, oversized-message size) with a key pair from the "
     "real KeyGen on seeded key material; each case runs sign, verify, to_bytes/from_bytes, verify of the decoded "
     "signature, and the None/empty equivalences. distinct_nontrivial counts distinct case tuples (all are "
     "non-trivial: every case signs and verifies).",
     BBS_BASE, (800, 4000), (600, 3600),
     exhaustive_subspaces=["L in 0..=3 x 6 header classes x 6 message classes x 2 suites"])
NOT_CLAIMED = {}

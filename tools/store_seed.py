#!/usr/bin/env python3
"""Store a confirmed seeded change under /verif/seeded/<id>-<wave>/.
usage: store_seed.py <Cxx> <wave> <check exit> "<sig1;sig2>" "<note>"
Reads the sub-agent's deliverables from /tmp/wt/<Cxx>/_out, the confirmed patch /tmp/wt/<Cxx>.patch and the
confirmation log /verif/logs/w<wave>/confirm-<Cxx>.log."""
import json
import os
import shutil
import sys

pid, wave, rc, sigs, note = sys.argv[1], int(sys.argv[2]), int(sys.argv[3]), sys.argv[4], sys.argv[5]
src = f"/tmp/wt/{pid}/_out"
dst = f"/verif/seeded/{pid}-{wave}"
os.makedirs(dst, exist_ok=True)
shutil.copy(f"/tmp/wt/{pid}.patch", f"{dst}/patch.diff")
shutil.copy(f"{src}/demo.rs", f"{dst}/demo.rs")
am = json.load(open(f"{src}/meta.json"))
confirm = open(f"/verif/logs/w{wave}/confirm-{pid}.log").read().strip().splitlines()
cl = int(pid[1:]) >= 13
meta = {
    "breaks_property": pid,
    "wave": wave,
    "origin": "independent sub-agent given only the property text, a scratch worktree and one-paragraph descriptions of the "
              "earlier seeded changes to avoid",
    "summary": am.get("summary"),
    "needs_to_manifest": am.get("needs_to_manifest"),
    "files_changed": am.get("files_changed"),
    "confirmed_by_me": {
        "worktree": f"/tmp/wt/{pid} (removed afterwards)",
        "commands": [
            f"tools/confirm_seed.sh {pid}{' cl' if cl else ''}",
            f"tools/run_seed.sh /verif/seeded/{pid}-{wave}/patch.diff {pid}",
        ],
        "confirm_log": confirm,
    },
    "detected_by": {
        "check": pid,
        "tier": "quick",
        "exit": rc,
        "signatures": [s for s in sigs.split(";") if s],
        "note": note,
    },
}
json.dump(meta, open(f"{dst}/meta.json", "w"), indent=1)
print("stored", dst)

#!/bin/sh
# Apply a seeded change to /repo, run the given checks, undo it straight afterwards.
# usage: run_seed.sh <patch.diff> <check id>...
P=$1; shift
cd /repo || exit 2
[ -z "$(git status --porcelain --untracked-files=no)" ] || { echo "/repo is dirty"; exit 2; }
git apply "$P" || { echo "patch does not apply"; exit 2; }
for id in "$@"; do
  out=$(cd /verif && timeout 3000 ./check $id 2>&1); rc=$?
  echo "  check $id -> exit $rc : $(echo "$out" | grep -E '^VIOLATION|^INCONCLUSIVE' | head -3 | cut -c1-230 | tr '\n' ';')"
done
git -C /repo checkout -- . ; [ -z "$(git -C /repo status --porcelain --untracked-files=no)" ] && echo "  /repo restored"

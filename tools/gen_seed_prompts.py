#!/usr/bin/env python3
"""Write the wave-<k> prompts for the seeding sub-agents (/tmp/wt/<id>.prompt<k>.txt) from the previous wave's prompt:
the list of earlier attempts is rebuilt from /verif/seeded/<id>*/meta.json (first 330 characters of each summary — the
sub-agent gets the property text and these one-paragraph descriptions, nothing else from /verif)."""
import glob, json, re, sys
k = int(sys.argv[1])
words = {2: "One previous attempt", 3: "Two previous attempts", 4: "Three previous attempts", 5: "Four previous attempts", 6: "Five previous attempts", 7: "Six previous attempts", 8: "Seven previous attempts", 9: "Eight previous attempts"}
for i in range(1, 20):
    pid = f"C{i:02d}"
    base = open(f"/tmp/wt/{pid}.prompt4.txt").read()
    metas = []
    for d in [f"/verif/seeded/{pid}"] + [f"/verif/seeded/{pid}-{w}" for w in range(2, k)]:
        try:
            metas.append(json.load(open(d + "/meta.json"))["summary"])
        except OSError:
            pass
    lst = "\n".join(f"  ({n + 1}) {m[:330]}" for n, m in enumerate(metas))
    head, rest = base.split("- Three previous attempts", 1)
    tail = rest.split("- Keep it small", 1)[1]
    hint = ("- Places where such breaks hide well: error paths and their ordering, integer width conversions (usize/u64/u32/u8), "
            "iterator adaptors (zip/take/skip/chunks/rev/step_by/windows), sort/dedup/retain, Option/Result combinators, serde "
            "attributes and hand-written Serialize/Deserialize/PartialEq/Default impls, endianness and padding of integers, "
            "release-vs-debug arithmetic, helper functions that are public but not used by the main flows, and clauses of the "
            "property statement that none of the earlier attempts touched.\n")
    if k >= 7:
        hint += ("- Yet further places: state carried by an object across calls (builder / key pair / proof objects mutated in place), "
                 "Clone / PartialEq / Hash impls that skip a field, conversions between the generic wrapper enums and the inner "
                 "structs, feature-gated code paths (cfg(test), cfg(feature)), the order in which independent checks run when two "
                 "of them fail, inputs that are valid but extreme in TWO dimensions at once, and helper functions whose contract "
                 "differs subtly from how a second caller uses them.\n")
    if k >= 6:
        hint += ("- Further places: a wrong variable of the same type passed to a helper (two bounds, two moduli, two generator lists), "
                 "comparison operators at interval ends (< vs <=), sign handling of big integers (negative values, abs, % vs rem_euc), "
                 "security parameters and their arithmetic (bit lengths, shifts, powers of two), the prover and verifier sides of one "
                 "sub-protocol drifting apart, checks that are correct for honest inputs but too weak against a party that deviates "
                 "from the protocol in one chosen value.\n")
    mid = (f"- {words[k]} already used the following ideas; do something DIFFERENT from all of them (different function and "
           "different mechanism; no per-thread/process caches, no all/any swaps, no `vec![expr; n]` tricks, no dropped subgroup "
           "checks, no secure_pow_mod / zero-exponent panics, no dedup of equal messages):\n" + lst + "\n" + hint)
    open(f"/tmp/wt/{pid}.prompt{k}.txt", "w").write(head + mid + "- Keep it small" + tail)
print("ok")

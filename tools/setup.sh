#!/bin/sh
# Build the framework from files on disk only (offline). Run in /verif after a fresh restore.
set -e
cd "$(dirname "$0")/.."
V=$(pwd)
export CARGO_NET_OFFLINE=true
mkdir -p logs evidence replays .cache/gmp
for h in bbs cl; do
  [ -f harness/$h/Cargo.toml ] || continue
  [ -f harness/$h/Cargo.lock ] || cp /repo/Cargo.lock harness/$h/Cargo.lock
done
# BBS harness: release profile and the overflow-checking profile (C08, C12)
( cd harness/bbs && cargo build --offline --profile release && cargo build --offline --profile checked ) 2>&1 | tail -3
# CL03 harness: pure-C GMP built once into .cache/gmp (no m4 in the sandbox, see DESIGN.md section 2)
if [ -f harness/cl/Cargo.toml ]; then
  ( cd harness/cl && CONFIG_SITE=$V/tools/gmp.site M4=true CARGO_FEATURE_C_NO_TESTS=1 \
    GMP_MPFR_SYS_CACHE=$V/.cache/gmp cargo build --offline --profile release ) 2>&1 | tail -3
fi

# sanitizer builds used by the thorough tiers of C07-C10 (nightly; failure here is not fatal: the layer
# then reports itself inconclusive and the monitors stand alone)
( cd harness/bbs && RUSTFLAGS="-Zsanitizer=address -Cforce-frame-pointers=yes" CARGO_TARGET_DIR=$V/target/asan \
  cargo +nightly build --offline --release --target x86_64-unknown-linux-gnu ) > logs/setup-asan.log 2>&1 || echo "asan build failed (non-fatal)"
( cd harness/bbs && RUSTFLAGS="-Zsanitizer=thread" CARGO_TARGET_DIR=$V/target/tsan \
  cargo +nightly build --offline --release -Zbuild-std --target x86_64-unknown-linux-gnu ) > logs/setup-tsan.log 2>&1 || echo "tsan build failed (non-fatal)"
echo sanitizer builds done
echo setup done

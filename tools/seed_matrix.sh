#!/bin/sh
# Re-run every seeded change against its property's quick check on the current tree; writes seeded/MATRIX.md
cd /verif
out=seeded/MATRIX.md
echo "| seed | property | applies | check exit | first signatures |" > $out
echo "|---|---|---|---|---|" >> $out
for d in seeded/C*/; do
  id=$(basename $d); prop=$(echo $id | cut -c1-3)
  cd /repo
  if ! git apply --check /verif/$d/patch.diff 2>/dev/null; then
    echo "| $id | $prop | no (conflicts with a later fix) | - | - |" >> /verif/$out; cd /verif; continue
  fi
  git apply /verif/$d/patch.diff
  cd /verif
  res=$(timeout 3000 ./check $prop 2>&1); rc=$?
  sigs=$(echo "$res" | grep '^VIOLATION' | sed 's/.*signature=//' | head -3 | tr '\n' ';')
  echo "| $id | $prop | yes | $rc | $sigs |" >> $out
  git -C /repo checkout -- .
done
git -C /repo status --short | head -2
echo done

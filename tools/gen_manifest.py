#!/usr/bin/env python3
"""Regenerate MANIFEST.json from lib/props.py (claimed checks) and the list of unclaimed properties."""
import json, os, subprocess, sys
V = os.path.dirname(os.path.dirname(os.path.abspath(__file__)))
sys.path.insert(0, os.path.join(V, "lib"))
import props as P

all_ids = [json.loads(l)["id"] for l in open(os.path.join(V, "properties.jsonl"))]
hook_commits = subprocess.run(["git", "-C", "/repo", "log", "--format=%H %s", "--grep=^verif hooks"],
                              capture_output=True, text=True).stdout.strip().splitlines()
checks = []
for pid in all_ids:
    if pid not in P.PROPS or not P.PROPS[pid].get("claimed", True):
        continue
    m = P.PROPS[pid]
    checks.append({
        "property_id": pid,
        "quick_cmd": f"./check {pid} --tier quick",
        "thorough_cmd": f"./check {pid} --tier thorough",
        "evidence_file": f"/verif/evidence/{pid}.json",
        "replay_cmd_template": f"./check {pid} --replay {{path}}",
        "engine": "zkmon-" + m["harness"],
        "level_claimed": {
            "category": "exploration",
            "text": m.get("level_text", "Runtime monitor: oracles over events recorded at the public API boundary of the real "
                          "library, driven by generated, hostile and exhaustive-in-small-dimensions workloads; the verdict is "
                          "'held on the executions listed in the evidence', not a proof."),
            "design_ref": m.get("design_ref", "DESIGN.md section 6 / " + pid),
        },
        "level_note": "; ".join(m["assumptions"]),
        "technique": m.get("technique", "runtime monitoring: boundary event monitor with deterministic oracle"),
    })
na = []
for pid in all_ids:
    if pid not in P.PROPS or not P.PROPS[pid].get("claimed", True):
        na.append({"property_id": pid, "reason": P.NOT_CLAIMED.get(pid, "monitor not built yet in this round")})
man = {
    "version": 1,
    "setup_cmd": "./tools/setup.sh",
    "hooks": {
        "guard": "cargo feature verif_hooks",
        "enable": "harness crates depend on zkryptium with features = [..., \"verif_hooks\"] (path dependency on /repo)",
        "baseline_off_cmd": "cd /repo && cargo test --workspace --no-fail-fast --offline",
        "source_commits": [c.split()[0] for c in hook_commits],
        "add_only": True,
    },
    "engines": [
        {"name": "zkmon-bbs", "path": "harness/bbs", "serves_properties": [c["property_id"] for c in checks if c["engine"] == "zkmon-bbs"],
         "kind_free_text": "Rust harness linked against /repo (production randomness path): workload generators, online oracles, independent reference implementation of the drafts"},
        {"name": "zkmon-cl", "path": "harness/cl", "serves_properties": [c["property_id"] for c in checks if c["engine"] == "zkmon-cl"],
         "kind_free_text": "Rust harness linked against /repo with feature cl03 (pure-C GMP): workloads, attacker-side recomputation monitors; offline Python checkers"},
        {"name": "check", "path": "check", "serves_properties": [c["property_id"] for c in checks],
         "kind_free_text": "python3 driver: build, watchdog, known-finding matching, evidence"},
    ],
    "checks": checks,
    "notes": "All verdicts are three-valued (0 held / 1 violated / 3 inconclusive). See DESIGN.md.",
    "not_applicable": na,
}
json.dump(man, open(os.path.join(V, "MANIFEST.json"), "w"), indent=1)
print("claimed:", [c["property_id"] for c in checks], "unclaimed:", [n["property_id"] for n in na])

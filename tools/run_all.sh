#!/bin/sh
# run every check of a tier for the given seeds; usage: run_all.sh <tier> <seed>...
tier=$1; shift
cd /verif
for s in "$@"; do
  for p in C01 C02 C03 C04 C05 C06 C07 C08 C09 C10 C11 C12 C13 C14 C15 C16 C17 C18 C19; do
    out=$(VERIF_SEED=$s timeout 20000 ./check $p --tier $tier 2>&1); rc=$?
    echo "seed=$s $p rc=$rc $(echo "$out" | grep -E '^\[|^VIOLATION|^INCONCLUSIVE|^KNOWN' | head -3 | cut -c1-220 | tr '\n' ';')"
  done
done
echo done

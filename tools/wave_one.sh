#!/bin/sh
# One seeded change end to end: confirm it in its scratch worktree, then run the property's quick check against it in /repo.
# usage: wave_one.sh <Cxx> <wave>      (log: logs/w<wave>/confirm-<Cxx>.log, logs/w<wave>/run-<Cxx>.log)
ID=$1; W=$2; N=$(echo $ID | cut -c2-3 | sed 's/^0//')
mkdir -p /verif/logs/w$W
CL=""; [ "$N" -ge 13 ] && CL=cl
timeout 1500 /verif/tools/confirm_seed.sh $ID $CL > /verif/logs/w$W/confirm-$ID.log 2>&1
cat /verif/logs/w$W/confirm-$ID.log
/verif/tools/run_seed.sh /tmp/wt/$ID.patch $ID 2>&1 | tee /verif/logs/w$W/run-$ID.log

#!/bin/sh
# Confirm a seeded change in its scratch worktree: (1) baseline tests pass with the change,
# (2) the demonstration fails with the change, (3) passes without it.  usage: confirm_seed.sh C05 [cl]
ID=$1; W=/tmp/wt/$ID; cd $W || exit 2
export CARGO_NET_OFFLINE=true CARGO_TARGET_DIR=$W/target
FEAT=""; REL=""
if [ "$2" = "cl" ]; then
  export CONFIG_SITE=/tmp/wt/gmp.site M4=true CARGO_FEATURE_C_NO_TESTS=1 GMP_MPFR_SYS_CACHE=/tmp/gmpcache
  FEAT="--features cl03"; REL="--release"
fi
git diff -- src > /tmp/wt/$ID.patch
[ -s /tmp/wt/$ID.patch ] || { echo "no src change applied"; exit 2; }
echo "== baseline with change"; cargo test --workspace --offline --lib 2>&1 | grep -E "^test result" | head -2
echo "== demo with change (must FAIL)"; cargo test --offline $FEAT $REL --test demo 2>&1 | grep -E "^test result|error\[" | head -3
git checkout -- src
echo "== demo without change (must PASS)"; cargo test --offline $FEAT $REL --test demo 2>&1 | grep -E "^test result|error\[" | head -3
git apply /tmp/wt/$ID.patch
echo "== patch re-applied: $(git diff --stat -- src | tail -1)"
